import BedVerif.Lemmas.CoverVocab
import BedVerif.Lemmas.C18Merge
import BedVerif.Lemmas.C18Hist
import BedVerif.Lemmas.C18Runs
namespace BV
variable {α : Type}

/-- list-level core: merging a start-sorted list of non-empty intervals gives a canonical list
covering exactly the same positions -/
theorem C18_mergeList_canonical (l : List (Iv α)) (hs : SortedStart l) (hne : ∀ iv ∈ l, iv.start < iv.stop) :
    Canonical (mergeList l) ∧ ∀ p, covered (mergeList l) p ↔ covered l p :=
  C18h.mergeList_canonical l hs hne

/-- a canonical list is determined by the set of positions it covers: it is *the* minimal disjoint,
non-adjacent cover -/
theorem C18_canonical_unique {β : Type} (l₁ : List (Iv α)) (l₂ : List (Iv β)) (h₁ : Canonical l₁) (h₂ : Canonical l₂)
    (h : ∀ p, covered l₁ p ↔ covered l₂ p) :
    l₁.map (fun i => (i.start, i.stop)) = l₂.map (fun i => (i.start, i.stop)) :=
  C18h.canonical_unique l₁ l₂ h₁ h₂ h

/-- merging a canonical list changes nothing -/
theorem C18_mergeList_of_canonical (l : List (Iv α)) (h : Canonical l) : mergeList l = l :=
  C18h.mergeList_of_canonical l h

/-- C18 for every reachable state: the merged content is canonical, covers exactly what was covered
before, and `merge_overlaps` is idempotent -/
theorem C18_merge_canonical (l : List (Iv α)) (ops : List (Op α)) (h : NonEmptyIvs l ops) :
    Canonical (Lapper.run l ops).mergeOverlaps.intervals.toList ∧
    (∀ p, covered (Lapper.run l ops).mergeOverlaps.intervals.toList p ↔ covered (Lapper.run l ops).intervals.toList p) ∧
    (Lapper.run l ops).mergeOverlaps.mergeOverlaps.intervals.toList = (Lapper.run l ops).mergeOverlaps.intervals.toList :=
  C18h.merge_canonical l ops h

/-- merges never change the set of covered positions: after any history the stored intervals cover
exactly the positions covered by the supplied intervals -/
theorem C18_covered_supplied (l : List (Iv α)) (ops : List (Op α)) (h : NonEmptyIvs l ops) (p : Nat) :
    covered (Lapper.run l ops).intervals.toList p ↔ covered (recordsOf l ops) p :=
  (C18h.G_run l ops h).cov p

/-- all stored intervals stay non-empty -/
theorem C18_stored_nonempty (l : List (Iv α)) (ops : List (Op α)) (h : NonEmptyIvs l ops) :
    ∀ iv ∈ (Lapper.run l ops).intervals.toList, iv.start < iv.stop :=
  (C18h.G_run l ops h).ne

/-- the `overlaps_merged` flag is only set when the content is canonical -/
theorem C18_merged_flag (l : List (Iv α)) (ops : List (Op α)) (h : NonEmptyIvs l ops) :
    (Lapper.run l ops).merged = true → Canonical (Lapper.run l ops).intervals.toList :=
  (C18h.G_run l ops h).flag

/-- afterwards every query answers for the merged set, and intervals inserted later are again found
and counted: in any history (merges included) `find`, `count` and a fresh `seek` agree with the
filter over the current content, and an insert adds exactly its interval to the content -/
theorem C18_queries_after (l : List (Iv α)) (ops : List (Op α)) (h : NonEmptyIvs l ops) (qs qe : Nat) (hq : qs < qe) :
    let s := Lapper.run l ops
    s.find qs qe = s.intervals.toList.filter (·.ov qs qe) ∧
    s.count qs qe = (s.intervals.toList.filter (·.ov qs qe)).length ∧
    (s.seek qs qe 0).1 = s.intervals.toList.filter (·.ov qs qe) :=
  C18h.queries_after l ops h qs qe hq

theorem C18_insert_after (l : List (Iv α)) (ops : List (Op α)) (iv : Iv α) :
    (Lapper.run l (ops ++ [.insert iv])).intervals.toList.Perm (iv :: (Lapper.run l ops).intervals.toList) :=
  C18h.insert_after l ops iv

/-- the specification-level canonical cover used by the driver (`canonicalCover`, maximal runs of the
covered predicate) is what `merge_overlaps` computes -/
theorem C18_merge_eq_canonicalCover (l : List (Iv α)) (hs : SortedStart l) (hne : ∀ iv ∈ l, iv.start < iv.stop) :
    (mergeList l).map (fun i => (i.start, i.stop)) = canonicalCover l :=
  C18h.merge_eq_canonicalCover l hs hne

end BV
