import BedVerif.Lemmas.FastCover
/-!
C18/C19, large sets: the O(n log n) canonical cover the driver evaluates on sets of 10^4–10^5 intervals
(`fastCover`: drop the empty intervals, core merge sort by start, the linear merge loop of the model) is the
position-enumerating `canonicalCover` of `Spec/Lapper.lean` — for every list, empty and inverted intervals included.
-/
namespace BV
variable {α : Type}

theorem C18_fastCover_eq_canonicalCover (l : List (Iv α)) : fastCover l = canonicalCover l :=
  fastCover_eq_canonicalCover l

/-- the cover depends only on the set of covered positions (used to compare covers of differently built lists) -/
theorem C18_canonicalCover_congr {β : Type} (l : List (Iv α)) (l' : List (Iv β))
    (h : ∀ p, covered l p ↔ covered l' p) : canonicalCover l = canonicalCover l' :=
  canonicalCover_congr l l' h

end BV
