import BedVerif.Lemmas.FastCover
/-!
C18/C19, large sets: the O(n log n) canonical cover the driver evaluates on sets of 10^4–10^5 intervals
(`fastCover`: drop the empty intervals, core merge sort by start, the linear merge loop of the model) is the
position-enumerating `canonicalCover` of `Spec/Lapper.lean` — for every list, empty and inverted intervals included.
-/
namespace BV
variable {α : Type}

theorem C18_fastCover_eq_canonicalCover (l : List (Iv α)) : fastCover l = canonicalCover l :=
  fastCover_eq_canonicalCover l

/-- the cover depends only on the set of covered positions (used to compare covers of differently built lists) -/
theorem C18_canonicalCover_congr {β : Type} (l : List (Iv α)) (l' : List (Iv β))
    (h : ∀ p, covered l p ↔ covered l' p) : canonicalCover l = canonicalCover l' :=
  canonicalCover_congr l l' h

/-- on every reachable state over non-empty intervals, what `merge_overlaps` leaves is the fast cover of the SUPPLIED intervals:
the stack loop of the Rust after any history of inserts and earlier merges, and a filter + merge sort + one pass over the records
ever supplied, give the same list of (start, stop) pairs -/
theorem C18_mergeOverlaps_eq_fastCover (l : List (Iv α)) (ops : List (Op α)) (h : NonEmptyIvs l ops) :
    (Lapper.run l ops).mergeOverlaps.intervals.toList.map (fun i => (i.start, i.stop)) = fastCover (recordsOf l ops) := by
  obtain ⟨hc, hcov, _⟩ := C18_merge_canonical l ops h
  rw [fastCover_eq_canonicalCover]
  obtain ⟨hc2, hcov2⟩ := C18h.canonicalCover_spec (recordsOf l ops)
  have := C18_canonical_unique _ _ hc hc2 (fun p => by
    rw [hcov p, C18_covered_supplied l ops h p, hcov2 p])
  rw [this, C18h.map_toIv]

end BV
