import BedVerif.Props.C18
import BedVerif.Lemmas.C19Union
namespace BV
variable {α : Type}

/-- the moving-interval sweep of `calculate_coverage` counts the covered positions -/
theorem C19_calcCov_spec (s : Lapper α) (hs : SortedStart s.intervals.toList) (hne : ∀ iv ∈ s.intervals.toList, iv.start < iv.stop) :
    s.calcCov = coveredCount s.intervals.toList := calcCov_spec s hs hne

/-- the cached value, when present, is the coverage of the *current* content: `cov()` is up to date
after any interleaving of `set_cov`, `insert` and `merge_overlaps` -/
theorem C19_cov_spec (l : List (Iv α)) (ops : List (Op α)) (h : NonEmptyIvs l ops) :
    (Lapper.run l ops).getCov = coveredCount (Lapper.run l ops).intervals.toList := cov_spec l ops h

/-- … and it is the number of positions covered by the supplied intervals -/
theorem C19_cov_supplied (l : List (Iv α)) (ops : List (Op α)) (h : NonEmptyIvs l ops) :
    (Lapper.run l ops).getCov = coveredCount (recordsOf l ops) := cov_supplied l ops h

/-- union and intersect are the sizes of the union and of the intersection of the covered position
sets, on both code paths (both sets merged: pairwise sums; otherwise: materialise, merge, count) -/
theorem C19_union_intersect {β : Type} (la : List (Iv α)) (oa : List (Op α)) (lb : List (Iv β)) (ob : List (Op β))
    (ha : NonEmptyIvs la oa) (hb : NonEmptyIvs lb ob) :
    (Lapper.run la oa).unionAndIntersect (Lapper.run lb ob) =
      (unionCount (recordsOf la oa) (recordsOf lb ob), interCount (recordsOf la oa) (recordsOf lb ob)) :=
  union_intersect la oa lb ob ha hb

/-- machine arithmetic of the repaired `union_and_intersect`: the intersection never exceeds cov(a), so
`cov(a) - inter` cannot underflow; `cov(a) - inter + cov(b)` IS the size of the union; and the union is at
most the greatest stop, i.e. it fits in u64 whenever the coordinates do — no intermediate value of the
repaired expression exceeds u64::MAX -/
theorem C19_union_u64_exact {β : Type} (A : List (Iv α)) (B : List (Iv β)) :
    interCount A B ≤ coveredCount A ∧
    coveredCount A - interCount A B + coveredCount B = unionCount A B ∧
    unionCount A B ≤ max (maxStop A) (maxStop B) :=
  ⟨interCount_le_coveredCount A B, unionCount_eq_sub_add A B, unionCount_le_maxStop A B⟩

/-- witness: `[0,3)` and `[2,5)` cover 5 positions together and share 1 -/
example : ((Lapper.new [(⟨0, 3, ()⟩ : Iv Unit)]).unionAndIntersect (Lapper.new [(⟨2, 5, ()⟩ : Iv Unit)])) = (5, 1) := by decide +kernel

/-- symmetric in the two arguments -/
theorem C19_symm {β : Type} (la : List (Iv α)) (oa : List (Op α)) (lb : List (Iv β)) (ob : List (Op β))
    (ha : NonEmptyIvs la oa) (hb : NonEmptyIvs lb ob) :
    (Lapper.run la oa).unionAndIntersect (Lapper.run lb ob) = (Lapper.run lb ob).unionAndIntersect (Lapper.run la oa) := by
  rw [C19_union_intersect la oa lb ob ha hb, C19_union_intersect lb ob la oa hb ha,
    unionCount_comm, interCount_comm]

/-- independent of whether either set has had its overlaps merged -/
theorem C19_merged_irrelevant {β : Type} (la : List (Iv α)) (oa : List (Op α)) (lb : List (Iv β)) (ob : List (Op β))
    (ha : NonEmptyIvs la oa) (hb : NonEmptyIvs lb ob) :
    (Lapper.run la (oa ++ [.merge])).unionAndIntersect (Lapper.run lb ob) = (Lapper.run la oa).unionAndIntersect (Lapper.run lb ob) ∧
    (Lapper.run la oa).unionAndIntersect (Lapper.run lb (ob ++ [.merge])) = (Lapper.run la oa).unionAndIntersect (Lapper.run lb ob) := by
  have ha' : NonEmptyIvs la (oa ++ [.merge]) := by
    unfold NonEmptyIvs; rw [recordsOf_append_merge]; exact ha
  have hb' : NonEmptyIvs lb (ob ++ [.merge]) := by
    unfold NonEmptyIvs; rw [recordsOf_append_merge]; exact hb
  constructor
  · rw [C19_union_intersect la _ lb ob ha' hb, C19_union_intersect la oa lb ob ha hb, recordsOf_append_merge]
  · rw [C19_union_intersect la oa lb _ ha hb', C19_union_intersect la oa lb ob ha hb, recordsOf_append_merge]

end BV
