import BedVerif.Lemmas.FastCount
import BedVerif.Props.C19
/-!
C19, large sets: the O(n log n) cardinalities the driver evaluates on sets of 10^4–10^5 intervals — total length of
`fastCover`, and inclusion–exclusion over the cover of the concatenation — are the position-enumerating `coveredCount`,
`unionCount` and `interCount` of `Spec/Lapper.lean`, for every pair of lists (empty and inverted intervals included).
-/
namespace BV
variable {α β : Type}

theorem C19_fastCov_eq_coveredCount (l : List (Iv α)) : fastCov l = coveredCount l := fastCov_eq_coveredCount l
theorem C19_fastUnion_eq_unionCount (a : List (Iv α)) (b : List (Iv β)) : fastUnion a b = unionCount a b := fastUnion_eq_unionCount a b
theorem C19_fastInter_eq_interCount (a : List (Iv α)) (b : List (Iv β)) : fastInter a b = interCount a b := fastInter_eq_interCount a b

/-- on every reachable state: `cov()` of the model (the Rust's sweep with its moving interval, cached or computed, after any
inserts and merges) is the total length of the fast cover of the SUPPLIED intervals -/
theorem C19_cov_eq_fastCov (l : List (Iv α)) (ops : List (Op α)) (h : NonEmptyIvs l ops) :
    (Lapper.run l ops).getCov = fastCov (recordsOf l ops) := by
  rw [fastCov_eq_coveredCount]; exact C19_cov_supplied l ops h

/-- … and `union_and_intersect` of the model, on both of its code paths, is the pair computed by inclusion–exclusion over fast
covers of the supplied intervals -/
theorem C19_unionAndIntersect_eq_fast (la : List (Iv α)) (oa : List (Op α)) (lb : List (Iv β)) (ob : List (Op β))
    (ha : NonEmptyIvs la oa) (hb : NonEmptyIvs lb ob) :
    (Lapper.run la oa).unionAndIntersect (Lapper.run lb ob) =
      (fastUnion (recordsOf la oa) (recordsOf lb ob), fastInter (recordsOf la oa) (recordsOf lb ob)) := by
  rw [fastUnion_eq_unionCount, fastInter_eq_interCount]; exact C19_union_intersect la oa lb ob ha hb

end BV
