import BedVerif.Lemmas.FastCount
/-!
C19, large sets: the O(n log n) cardinalities the driver evaluates on sets of 10^4–10^5 intervals — total length of
`fastCover`, and inclusion–exclusion over the cover of the concatenation — are the position-enumerating `coveredCount`,
`unionCount` and `interCount` of `Spec/Lapper.lean`, for every pair of lists (empty and inverted intervals included).
-/
namespace BV
variable {α β : Type}

theorem C19_fastCov_eq_coveredCount (l : List (Iv α)) : fastCov l = coveredCount l := fastCov_eq_coveredCount l
theorem C19_fastUnion_eq_unionCount (a : List (Iv α)) (b : List (Iv β)) : fastUnion a b = unionCount a b := fastUnion_eq_unionCount a b
theorem C19_fastInter_eq_interCount (a : List (Iv α)) (b : List (Iv β)) : fastInter a b = interCount a b := fastInter_eq_interCount a b

end BV
