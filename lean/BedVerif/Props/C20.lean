import BedVerif.Props.C18
import BedVerif.Lemmas.C20Top
import BedVerif.Lemmas.C20Checker
namespace BV
variable {α : Type}

/-- all coordinates fit in u64 -/
def FitsU64 (l : List (Iv α)) (ops : List (Op α)) : Prop := ∀ iv ∈ recordsOf l ops, iv.stop ≤ U64MAX

/-- merges only take the maximum of stops: when the supplied intervals fit in u64, so do the stored ones -/
theorem C20_stored_fits (l : List (Iv α)) (ops : List (Op α)) (h : NonEmptyIvs l ops) (hfit : FitsU64 l ops) :
    ∀ iv ∈ (Lapper.run l ops).intervals.toList, iv.stop ≤ U64MAX := by
  intro iv hiv
  have hne := C18_stored_nonempty l ops h iv hiv
  have hc : covered (Lapper.run l ops).intervals.toList (iv.stop - 1) :=
    ⟨iv, hiv, (covers_iff iv _).mpr ⟨by omega, by omega⟩⟩
  obtain ⟨r, hr, hrc⟩ := (C18_covered_supplied l ops h (iv.stop - 1)).mp hc
  have := hfit r hr
  rw [covers_iff] at hrc
  omega

/-- C20 for every reachable state over non-empty intervals anywhere in the u64 range (an interval may end at u64::MAX itself) -/
theorem C20_depth_spec (l : List (Iv α)) (ops : List (Op α)) (h : NonEmptyIvs l ops) (hfit : FitsU64 l ops) :
    IsDepthRLE (Lapper.run l ops).intervals.toList (Lapper.run l ops).depth := by
  have hinv := (inv_run_weak l ops h.weak).1
  exact depth_spec_of _ ⟨hinv.sortedStart, hinv.maxLen_ge, C20_stored_fits l ops h hfit⟩ (C18_stored_nonempty l ops h)

/-- an empty set yields no runs -/
theorem C20_depth_empty : (Lapper.new ([] : List (Iv α))).depth = [] := by rfl

/-- the Boolean checker the driver applies to the implementation's output is sound for the spec -/
theorem C20_isDepthRLEB_sound (l : List (Iv α)) (runs : List (Iv Nat)) (h : isDepthRLEB l runs = true) :
    IsDepthRLE l runs := by
  obtain ⟨h1, h2, h3⟩ := isDepthRLEB_parts l runs h
  have hne : ∀ r ∈ runs, r.start < r.stop := by
    intro r hr; simpa using (List.all_eq_true.mp h1) r hr
  have hadj := zip_drop_all runs _ h2
  have hok := okB_everywhere l runs h3
  refine ⟨hne, ?_, ?_, ?_, ?_⟩
  · apply asc_of_adj runs hne
    intro i hi
    have := hadj i hi
    simp only [Bool.and_eq_true, decide_eq_true_eq] at this
    exact this.1
  · intro r hr p hc
    exact okB_value l runs p (hok p) r hr hc
  · intro p
    constructor
    · intro hp
      exact okB_covered l runs p (hok p) ((depthOf_pos_iff l p).mpr hp)
    · intro ⟨r, hr, hc⟩
      have := okB_value l runs p (hok p) r hr hc
      exact (depthOf_pos_iff l p).mp (by omega)
  · intro i hi heq hval
    have := hadj i hi
    simp [heq, hval] at this

/-- witness (fixture `test_depth_harder` of the crate) -/
example : (Lapper.new [(⟨1, 10, ()⟩ : Iv Unit), ⟨2, 5, ()⟩, ⟨3, 8, ()⟩, ⟨3, 8, ()⟩, ⟨3, 8, ()⟩, ⟨5, 8, ()⟩, ⟨9, 11, ()⟩, ⟨15, 20, ()⟩]).depth
    = [⟨1, 2, 1⟩, ⟨2, 3, 2⟩, ⟨3, 8, 5⟩, ⟨8, 9, 1⟩, ⟨9, 10, 2⟩, ⟨10, 11, 1⟩, ⟨15, 20, 1⟩] := by decide +kernel

/-- witness: two intervals ending at u64::MAX itself (the last probe of the block is at `u64::MAX`) -/
example : (Lapper.new [(⟨18446744073709551612, 18446744073709551615, ()⟩ : Iv Unit), ⟨18446744073709551613, 18446744073709551615, ()⟩]).depth
    = [⟨18446744073709551612, 18446744073709551613, 1⟩, ⟨18446744073709551613, 18446744073709551615, 2⟩] := by decide +kernel

end BV
