import BedVerif.Lemmas.FastDepth
/-!
C20, large sets: the run list the driver compares `depth()` with on sets of 10^4–10^5 intervals — `fastDepth'`, three core
merge sorts and one linear sweep over the endpoints — is THE run list satisfying the specification, for every list (empty and
inverted intervals included): a run list satisfies `IsDepthRLE` exactly when it equals `fastDepth' l`.
-/
namespace BV
variable {α : Type}

theorem C20_isDepthRLE_unique (l : List (Iv α)) (r₁ r₂ : List (Iv Nat)) (h₁ : IsDepthRLE l r₁) (h₂ : IsDepthRLE l r₂) : r₁ = r₂ :=
  isDepthRLE_unique l r₁ r₂ h₁ h₂
theorem C20_fastDepth_spec (l : List (Iv α)) : IsDepthRLE l (fastDepth' l) := fastDepth'_spec l
theorem C20_isDepthRLE_iff_eq_fastDepth (l : List (Iv α)) (runs : List (Iv Nat)) : IsDepthRLE l runs ↔ runs = fastDepth' l :=
  isDepthRLE_iff_eq_fastDepth' l runs

/-- the model's `depth()` (position-by-position probing through the seek cursor, as the Rust does) and the sweep are the same
function on every reachable state: two very different algorithms, one specification -/
theorem C20_depth_eq_fastDepth (l : List (Iv α)) (ops : List (Op α)) (h : NonEmptyIvs l ops) (hfit : FitsU64 l ops) :
    (Lapper.run l ops).depth = fastDepth' (Lapper.run l ops).intervals.toList :=
  (isDepthRLE_iff_eq_fastDepth' _ _).mp (C20_depth_spec l ops h hfit)

end BV
