import BedVerif.Props.C07
import BedVerif.Props.C08
import BedVerif.Props.C14
import BedVerif.Lemmas.SoundCov
/-!
# Soundness of the Boolean spec checkers (C07, C08, C14)

The driver applies Boolean checkers (Spec/Rec.lean) to the implementation's output; these theorems
show that whatever they accept satisfies the Prop-level specification the property theorems are
stated with. (`C14_tilesB_sound` and `C20_isDepthRLEB_sound` are in their property files.) The audit
of ./check C07 / C08 / C14 includes the theorems of this file with the matching prefix.
-/
namespace BV

/-- the mirror-tiling checker is sound -/
theorem C14_rtilesB_sound (r : Rec) (bin : Nat) (qs : List Rec) (h : rtilesB r bin qs = true) : RTiles r bin qs := by
  unfold rtilesB at h
  simp only [Bool.and_eq_true, beq_iff_eq, Bool.or_eq_true, List.all_eq_true, List.isEmpty_iff,
    decide_eq_true_eq] at h
  obtain ⟨⟨⟨⟨hcount, hchrom⟩, hfl⟩, hz⟩, hll⟩ := h
  have hz' := zip_drop_all qs _ hz
  have hne : ∀ h : 0 < qs.length, ¬ qs = [] := by intro h e; simp [e] at h
  refine ⟨hchrom, hcount, ?_, ?_, ?_, ?_, ?_⟩
  · intro hp
    have := hfl.resolve_left (hne hp)
    rw [headD_eq_getElem _ _ hp] at this
    exact this.1
  · intro hp
    have := hfl.resolve_left (hne hp)
    rw [getLastD_eq_getElem _ _ hp] at this
    exact this.2
  · intro i hi
    exact (hz' i hi).1
  · intro i hi
    exact (hz' i hi).2
  · intro hp
    have := hll.resolve_left (hne hp)
    rw [getLastD_eq_getElem _ _ hp] at this
    exact this

/-- the group checker is sound: groups accepted by `goodGroupsB` are good groups -/
theorem C07_goodGroupsB_sound (xs : List Rec) (gs : List (List Rec)) (h : goodGroupsB xs gs = true) : GoodGroups xs gs := by
  unfold goodGroupsB at h
  simp only [Bool.and_eq_true, beq_iff_eq, List.all_eq_true, Bool.or_eq_true, decide_eq_true_eq,
    Bool.not_eq_true', List.isEmpty_eq_false_iff, bne_iff_ne, ne_eq, List.mem_range] at h
  obtain ⟨⟨⟨⟨hfl, hne⟩, hch⟩, hchain⟩, hmax⟩ := h
  refine ⟨hfl, hne, ?_, ?_, ?_⟩
  · intro g hg a ha b hb
    rw [hch g hg a ha, hch g hg b hb]
  · intro g hg i hi
    have := (hchain g hg (i + 1) hi).resolve_left (by omega)
    rw [List.getD_eq_getElem?_getD, List.getElem?_eq_getElem hi, Option.getD_some] at this
    exact this
  · intro i hi a ha b hb
    exact zip_drop_all gs (fun gh => ∀ a ∈ gh.1, ∀ b ∈ gh.2, ¬ a.chrom = b.chrom ∨ a.stop < b.start)
      hmax i hi a ha b hb

/-- coverage agreement at the breakpoints is coverage agreement everywhere: between two consecutive
endpoints membership in every record involved is constant -/
theorem covered_eq_of_breakpoints (xs ys : List Rec)
    (h : ∀ cp ∈ recPoints xs ++ recPoints ys, coveredByB xs cp.1 cp.2 = coveredByB ys cp.1 cp.2) :
    ∀ c p, coveredByB xs c p = coveredByB ys c p := covered_eq_of_breakpoints' xs ys h

theorem zip_getElem_mem {α β} (l : List α) (m : List β) (i : Nat) (h1 : i < l.length) (h2 : i < m.length) :
    (l[i], m[i]) ∈ l.zip m := by
  have hlen : i < (l.zip m).length := by simp; omega
  have := List.getElem_mem hlen
  rw [List.getElem_zip] at this
  exact this

/-- the merged-output checker is sound for the clauses of `C07_merged` -/
theorem C07_mergedOkB_sound (xs out : List Rec) (gs : List (List Rec)) (h : mergedOkB xs out gs = true) :
    out = gs.map mergeGroup ∧ SortedRecs out ∧
    (∀ i (hi : i + 1 < out.length), out[i].chrom ≠ out[i+1].chrom ∨ out[i].stop < out[i+1].start) ∧
    (∀ c p, coveredBy xs c p ↔ coveredBy out c p) := by
  unfold mergedOkB at h
  simp only [Bool.and_eq_true, beq_iff_eq, List.all_eq_true, Bool.or_eq_true, decide_eq_true_eq,
    bne_iff_ne, ne_eq] at h
  obtain ⟨⟨⟨⟨hlen, hz⟩, hs⟩, hadj⟩, hcov⟩ := h
  refine ⟨?_, sortedRecsB_sound out hs, ?_, ?_⟩
  · apply List.ext_getElem
    · simp [hlen]
    · intro i h1 h2
      have h3 : i < gs.length := by omega
      have := hz _ (zip_getElem_mem out gs i h1 h3)
      obtain ⟨⟨e1, e2⟩, e3⟩ := this
      rw [List.getElem_map]
      generalize out[i] = o at e1 e2 e3
      cases o
      simp only [mergeGroup, Rec.mk.injEq]
      exact ⟨e1, e2, e3⟩
  · intro i hi
    exact zip_drop_all out (fun ab => ¬ ab.1.chrom = ab.2.chrom ∨ ab.1.stop < ab.2.start) hadj i hi
  · intro c p
    rw [← coveredByB_iff, ← coveredByB_iff, covered_eq_of_breakpoints xs out hcov c p]

/-- the value clause of `bedgraphOkB`, checked at the breakpoints, holds at every position of an
output record -/
theorem bg_value_of_breakpoints (xs out : List BG)
    (hv : ∀ cp ∈ recPoints (xs.map BG.toRec) ++ recPoints (out.map BG.toRec),
      ∀ o ∈ out, o.toRec.cov cp.1 cp.2 = false ∨ o.value = sumAtB xs cp.1 cp.2)
    (o : BG) (ho : o ∈ out) : ∀ p, o.start ≤ p → p < o.stop → o.value = sumAtB xs o.chrom p := by
  have hcovt : ∀ p, o.start ≤ p → p < o.stop → o.toRec.cov o.chrom p = true := by
    intro p h1 h2
    rw [Rec.cov_iff]
    exact ⟨rfl, h1, h2⟩
  have atBreak : ∀ p, o.start ≤ p → p < o.stop →
      (o.chrom, p) ∈ recPoints (xs.map BG.toRec) ++ recPoints (out.map BG.toRec) →
      o.value = sumAtB xs o.chrom p := by
    intro p h1 h2 hm
    rcases hv _ hm o ho with hf | hf
    · rw [hcovt p h1 h2] at hf; cases hf
    · exact hf
  have ownBreak : ∀ p, o.start = p → IsBreak (out.map BG.toRec) o.chrom p := by
    intro p hp
    exact ⟨o.toRec, List.mem_map_of_mem ho, rfl, Or.inl hp⟩
  intro p
  induction p with
  | zero =>
    intro h1 h2
    exact atBreak 0 h1 h2 (List.mem_append_right _ (mem_recPoints_of_break (ownBreak 0 (by omega))))
  | succ p ih =>
    intro h1 h2
    by_cases hx : IsBreak (xs.map BG.toRec) o.chrom (p + 1)
    · exact atBreak _ h1 h2 (List.mem_append_left _ (mem_recPoints_of_break hx))
    · by_cases hs : o.start = p + 1
      · exact atBreak _ h1 h2 (List.mem_append_right _ (mem_recPoints_of_break (ownBreak _ hs)))
      · rw [sumAtB_pred xs o.chrom p hx]
        exact ih (by omega) (by omega)

/-- the bedGraph checker is sound for the clauses of `C08_bedgraph` -/
theorem C08_bedgraphOkB_sound (xs out : List BG) (h : bedgraphOkB xs out = true) :
    (∀ o ∈ out, o.start < o.stop) ∧
    SortedBGs out ∧
    (∀ i (hi : i + 1 < out.length), out[i].chrom ≠ out[i+1].chrom ∨ out[i].stop ≤ out[i+1].start) ∧
    (∀ c p, coveredByBG xs c p ↔ coveredByBG out c p) ∧
    (∀ o ∈ out, ∀ p, o.toRec.mem p → o.value = sumAt xs o.chrom p) ∧
    (∀ i (hi : i + 1 < out.length), out[i].chrom = out[i+1].chrom → out[i].stop = out[i+1].start → out[i].value ≠ out[i+1].value) := by
  unfold bedgraphOkB at h
  simp only [Bool.and_eq_true, beq_iff_eq, List.all_eq_true, Bool.or_eq_true, decide_eq_true_eq,
    bne_iff_ne, ne_eq, Bool.not_eq_true', Bool.and_eq_false_iff, beq_eq_false_iff_ne] at h
  obtain ⟨⟨⟨⟨hne, hs⟩, hadj⟩, hval⟩, hcov⟩ := h
  refine ⟨hne, sortedRecsB_sound _ hs, ?_, ?_, ?_, ?_⟩
  · intro i hi
    exact zip_drop_all out (fun ab => ¬ ab.1.chrom = ab.2.chrom ∨ ab.1.stop ≤ ab.2.start) hadj i hi
  · intro c p
    rw [← coveredByB_map_iff, ← coveredByB_map_iff,
      covered_eq_of_breakpoints _ _ (fun cp hcp => (hcov cp hcp).1) c p]
  · intro o ho p hp
    rw [← sumAtB_eq_sumAt]
    exact bg_value_of_breakpoints xs out (fun cp hcp => (hcov cp hcp).2) o ho p hp.1 hp.2
  · intro i hi e1 e2
    have := zip_drop_all out
      (fun ab => (ab.1.chrom ≠ ab.2.chrom ∨ ab.1.stop ≠ ab.2.start) ∨ ¬ ab.1.value = ab.2.value) hval i hi
    rcases this with (h1 | h1) | h1
    · exact absurd e1 h1
    · exact absurd e2 h1
    · exact h1

end BV
