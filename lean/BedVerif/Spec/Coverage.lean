import BedVerif.Model.Coverage
/-!
Specification of the coverage counters (C05, C06): the count of a region / bin is the sum, over
the operations since the last reset, of the multiplicities of the tags overlapping it on the same
chromosome (`Rec.ov`, half-open), plus what `insert_at_index` added to exactly that index.
-/
namespace BV

/-- the operations since the last reset -/
def sinceReset (ops : List COp) : List COp :=
  ops.foldl (fun acc o => match o with | .reset => [] | o => acc ++ [o]) []
def contrib (regions : List Rec) (i : Nat) : COp → Int
  | .insert tag k => if (regions.getD i default).ov tag then k else 0
  | .insertAt j k => if i = j then k else 0
  | .reset => 0
def mult : COp → Int | .insert _ k => k | .insertAt _ k => k | .reset => 0
def specCounts (regions : List Rec) (ops : List COp) : List Int :=
  (List.range regions.length).map (fun i => ((sinceReset ops).map (contrib regions i)).sum)
def specTotal (ops : List COp) : Int := ((sinceReset ops).map mult).sum
/-- `specCounts` computed with each region paired with its position instead of list indexing (linear in regions ×
operations): what the driver evaluates on region lists of 10^4–10^5 entries. Equal to `specCounts`
(`C05_specCountsFast_eq` in `Props/Sound.lean`). -/
def specCountsFast (regions : List Rec) (ops : List COp) : List Int :=
  let sr := sinceReset ops
  regions.zipIdx.map (fun (ri : Rec × Nat) => (sr.map (fun o => match o with
    | .insert tag k => if ri.1.ov tag then k else 0
    | .insertAt j k => if ri.2 = j then k else 0
    | .reset => 0)).sum)
def InRange (n : Nat) (ops : List COp) : Prop := ∀ o ∈ ops, ∀ i k, o = .insertAt i k → i < n

def bsinceReset (ops : List BOp) : List BOp :=
  ops.foldl (fun acc o => match o with | .reset => [] | o => acc ++ [o]) []
def bcontrib (r : Rec) (bin b : Nat) : BOp → Int
  | .insert tag k => if (binOf r bin b).ov tag then k else 0
  | .reset => 0
def bmult : BOp → Int | .insert _ k => k | .reset => 0
/-- per region, per bin: the summed multiplicity of the tags overlapping that bin -/
def specBinned (regions : List Rec) (bin : Nat) (ops : List BOp) : List (List Int) :=
  regions.map (fun r => (List.range (nbins r bin)).map (fun b => ((bsinceReset ops).map (bcontrib r bin b)).sum))
def specBTotal (ops : List BOp) : Int := ((bsinceReset ops).map bmult).sum

end BV
