import BedVerif.Model.GMap
/-!
Specification vocabulary for the Lapper / GIntervalMap properties (C02, C11, C16–C20), in
decidable (Boolean or `Nat`-valued) form. The theorems in `Props/` are stated with exactly
these definitions, and the driver evaluates the same definitions on the implementation's
observables.
-/
namespace BV
variable {α : Type}

/-- half-open overlap of a stored record with a query, chromosome included -/
def Rec.ov (r q : Rec) : Bool := r.chrom == q.chrom && r.start < q.stop && r.stop > q.start
def Rec.len (r : Rec) : Nat := r.stop - r.start

/-- position `p` lies in `[start, stop)` -/
def Iv.covers (iv : Iv α) (p : Nat) : Bool := iv.start ≤ p && p < iv.stop
def coveredB (l : List (Iv α)) (p : Nat) : Bool := l.any (·.covers p)
def maxStop (l : List (Iv α)) : Nat := l.foldl (fun m iv => max m iv.stop) 0
/-- number of covered positions (all lie below `maxStop`) -/
def coveredCount (l : List (Iv α)) : Nat := ((List.range (maxStop l)).filter (coveredB l)).length
/-- number of intervals covering `p` -/
def depthOf (l : List (Iv α)) (p : Nat) : Nat := l.countP (·.covers p)

/-- C02 spec: what a query must return, as a list in storage order -/
def specFind (records : List (Rec × α)) (q : Rec) : List (Rec × α) := records.filter (fun x => x.1.ov q)

/-- canonical = non-empty intervals, ascending, pairwise disjoint and non-adjacent -/
def canonicalB (l : List (Iv α)) : Bool :=
  l.all (fun iv => iv.start < iv.stop) && (l.zip (l.drop 1)).all (fun ab => ab.1.stop < ab.2.start)

/-- C19 spec: sizes of union and intersection of the covered position sets -/
def unionCount {β : Type} (a : List (Iv α)) (b : List (Iv β)) : Nat :=
  ((List.range (max (maxStop a) (maxStop b))).filter (fun p => coveredB a p || coveredB b p)).length
def interCount {β : Type} (a : List (Iv α)) (b : List (Iv β)) : Nat :=
  ((List.range (max (maxStop a) (maxStop b))).filter (fun p => coveredB a p && coveredB b p)).length

/-- C20 spec: `runs` is the maximal run-length encoding of `depthOf l` over covered positions.
Checked at the breakpoints only: between consecutive endpoints of `l` and of `runs` both
`depthOf l` and run membership are constant. -/
def breakpoints (l : List (Iv α)) (runs : List (Iv Nat)) : List Nat :=
  (l.flatMap (fun iv => [iv.start, iv.stop, iv.stop - 1])) ++ (runs.flatMap (fun r => [r.start, r.stop, r.stop - 1]))
def isDepthRLEB (l : List (Iv α)) (runs : List (Iv Nat)) : Bool :=
  runs.all (fun r => r.start < r.stop) &&
  (runs.zip (runs.drop 1)).all (fun ab => ab.1.stop ≤ ab.2.start && (ab.1.stop != ab.2.start || ab.1.val != ab.2.val)) &&
  (breakpoints l runs).all (fun p =>
    match runs.filter (·.covers p) with
    | [] => depthOf l p == 0
    | [r] => depthOf l p == r.val && r.val > 0
    | _ => false)

end BV

namespace BV
variable {α : Type}

/-- maximal runs of consecutive `true` of `f` over `0 .. n-1`, as `(start, stop)` pairs:
the canonical (minimal, disjoint, non-adjacent, ascending) cover of `{p < n | f p}` -/
def runsOf (f : Nat → Bool) (n : Nat) : List (Nat × Nat) :=
  let step (acc : List (Nat × Nat) × Option Nat) (p : Nat) : List (Nat × Nat) × Option Nat :=
    match acc.2, f p with
    | none, true => (acc.1, some p)
    | none, false => acc
    | some s, true => (acc.1, some s)
    | some s, false => (acc.1 ++ [(s, p)], none)
  let r := (List.range n).foldl step ([], none)
  match r.2 with
  | none => r.1
  | some s => r.1 ++ [(s, n)]

/-- the canonical cover of the positions covered by `l` -/
def canonicalCover (l : List (Iv α)) : List (Nat × Nat) := runsOf (coveredB l) (maxStop l + 1)

end BV
