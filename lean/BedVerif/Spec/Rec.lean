import BedVerif.Model.Rec
/-!
Decidable specifications for C07, C08, C13, C14, evaluated by the driver on the
implementation's outputs. Position-quantified clauses are evaluated at the breakpoints
(every endpoint of the input and of the output, and its neighbours): between two consecutive
breakpoints membership in every record involved is constant.
-/
namespace BV

def Rec.memB (r : Rec) (p : Nat) : Bool := r.start ≤ p && p < r.stop
def Rec.cov (r : Rec) (c : Bytes) (p : Nat) : Bool := r.chrom == c && r.memB p
def coveredByB (xs : List Rec) (c : Bytes) (p : Nat) : Bool := xs.any (·.cov c p)
def sortedRecsB (xs : List Rec) : Bool := (xs.zip (xs.drop 1)).all (fun ab => Rec.compare ab.1 ab.2 != .gt)
def recPoints (xs : List Rec) : List (Bytes × Nat) :=
  xs.flatMap (fun r => [(r.chrom, r.start), (r.chrom, r.start - 1), (r.chrom, r.stop), (r.chrom, r.stop - 1)])

/-! ### C13 -/
/-- `g` is the set of positions contained in both `a` and `b` (checked at the breakpoints) -/
def overlapSpecB (a b : Rec) (o : Option Rec) : Bool :=
  let pts := [a.start, a.stop, b.start, b.stop, a.start - 1, a.stop - 1, b.start - 1, b.stop - 1]
  let shared := a.chrom == b.chrom && pts.any (fun p => a.memB p && b.memB p)
  match o with
  | none => !shared
  | some g => shared && g.chrom == a.chrom && g.start == max a.start b.start && g.stop == min a.stop b.stop &&
      (pts ++ [g.start, g.stop, g.start - 1, g.stop - 1]).all (fun p => g.memB p == (a.memB p && b.memB p))
/-- size of the set of shared positions -/
def sharedCount (a b : Rec) : Nat :=
  if a.chrom == b.chrom then min a.stop b.stop - max a.start b.start else 0

/-! ### C14 -/
def tilesB (r : Rec) (bin : Nat) (ps : List Rec) : Bool :=
  ps.length == (r.blen + bin - 1) / bin && ps.all (·.chrom == r.chrom) &&
  (ps.isEmpty || ((ps.headD default).start == r.start && (ps.getLastD default).stop == r.stop)) &&
  (ps.zip (ps.drop 1)).all (fun ab => ab.1.stop == ab.2.start && ab.1.blen == bin) &&
  (ps.isEmpty || (0 < (ps.getLastD default).blen && (ps.getLastD default).blen ≤ bin))
def rtilesB (r : Rec) (bin : Nat) (qs : List Rec) : Bool :=
  qs.length == (r.blen + bin - 1) / bin && qs.all (·.chrom == r.chrom) &&
  (qs.isEmpty || ((qs.headD default).stop == r.stop && (qs.getLastD default).start == r.start)) &&
  (qs.zip (qs.drop 1)).all (fun ab => ab.1.start == ab.2.stop && ab.1.blen == bin) &&
  (qs.isEmpty || (0 < (qs.getLastD default).blen && (qs.getLastD default).blen ≤ bin))

/-! ### C07 -/
def goodGroupsB (xs : List Rec) (gs : List (List Rec)) : Bool :=
  gs.flatten == xs && gs.all (fun g => !g.isEmpty) &&
  gs.all (fun g => g.all (fun a => a.chrom == (g.headD default).chrom)) &&
  gs.all (fun g => (List.range g.length).all (fun i => i == 0 || (g.getD i default).start ≤ listMax ((g.take i).map (·.stop)))) &&
  (gs.zip (gs.drop 1)).all (fun gh => gh.1.all (fun a => gh.2.all (fun b => a.chrom != b.chrom || a.stop < b.start)))
def mergedOkB (xs out : List Rec) (gs : List (List Rec)) : Bool :=
  out.length == gs.length &&
  (out.zip gs).all (fun og => og.1.chrom == (og.2.headD default).chrom &&
      og.1.start == listMin (og.2.map (·.start)) && og.1.stop == listMax (og.2.map (·.stop))) &&
  sortedRecsB out &&
  (out.zip (out.drop 1)).all (fun ab => ab.1.chrom != ab.2.chrom || ab.1.stop < ab.2.start) &&
  (recPoints xs ++ recPoints out).all (fun cp => coveredByB xs cp.1 cp.2 == coveredByB out cp.1 cp.2)

/-! ### C08 -/
def sumAtB (xs : List BG) (c : Bytes) (p : Nat) : Int := ((xs.filter (fun b => b.toRec.cov c p)).map (·.value)).sum
def bedgraphOkB (xs out : List BG) : Bool :=
  let xr := xs.map BG.toRec
  let orr := out.map BG.toRec
  out.all (fun o => o.start < o.stop) && sortedRecsB orr &&
  (out.zip (out.drop 1)).all (fun ab => ab.1.chrom != ab.2.chrom || ab.1.stop ≤ ab.2.start) &&
  (out.zip (out.drop 1)).all (fun ab => !(ab.1.chrom == ab.2.chrom && ab.1.stop == ab.2.start) || ab.1.value != ab.2.value) &&
  (recPoints xr ++ recPoints orr).all (fun cp =>
    coveredByB xr cp.1 cp.2 == coveredByB orr cp.1 cp.2 &&
    out.all (fun o => !(o.toRec.cov cp.1 cp.2) || o.value == sumAtB xs cp.1 cp.2))

end BV
