import BedVerif.Model.Reader
/-!
Specification vocabulary for the text properties (C03, C12, C04): well-formed records (what the
text format can carry), the lawful float codec (contract of std), the column-wise expectation of
C12.
-/
namespace BV

/-- contract of std's `f64` `Display` / `FromStr`, assumed (and sampled by the harness) -/
structure FloatCodec.Lawful {F : Type} (fc : FloatCodec F) : Prop where
  roundtrip : ∀ x, fc.isNaN x = false → fc.parse (fc.render x) = some x
  clean : ∀ x, TAB ∉ fc.render x ∧ LF ∉ fc.render x ∧ CR ∉ fc.render x
  negOne_lt : fc.ltZero fc.negOne = true ∧ fc.isNaN fc.negOne = false

def Clean (s : Bytes) : Prop := TAB ∉ s ∧ LF ∉ s ∧ CR ∉ s

/-- a p- or q-value the format can carry: absent, or a non-NaN value that is not `< 0` -/
def PvalOk {F : Type} (fc : FloatCodec F) (o : Option F) : Prop := ∀ v, o = some v → fc.ltZero v = false ∧ fc.isNaN v = false

/-- the BED columns name / score / strand as far as the type carries them -/
def BedColsOk {F : Type} (n : Nat) (x : TRec F) : Prop :=
  (∀ nm, x.name = some nm → Clean nm ∧ nm ≠ DOT) ∧ (∀ s, x.score = some s → s ≤ 1000) ∧
  (n ≤ 3 → x.name = none) ∧ (n ≤ 4 → x.score = none) ∧ (n ≤ 5 → x.strand = none)

/-- the records whose fields the text format of `ty` can carry (the quantifier of C03) -/
def WF {F : Type} (fc : FloatCodec F) (ty : Ty) (x : TRec F) : Prop :=
  Clean x.chrom ∧ x.start ≤ U64MAX ∧ x.stop ≤ U64MAX ∧
  match ty with
  | .gr => COLON ∉ x.chrom ∧ DASH ∉ x.chrom ∧ x.name = none ∧ x.score = none ∧ x.strand = none ∧
      x.signal = none ∧ x.p = none ∧ x.q = none ∧ x.peak = none ∧ x.ival = none
  | .bed n => 3 ≤ n ∧ BedColsOk n x ∧ x.signal = none ∧ x.p = none ∧ x.q = none ∧ x.peak = none ∧ x.ival = none
  | .narrowPeak => BedColsOk 6 x ∧ (∃ s, x.signal = some s ∧ fc.isNaN s = false) ∧ PvalOk fc x.p ∧ PvalOk fc x.q ∧
      (∃ k, x.peak = some k ∧ k ≤ U64MAX) ∧ x.ival = none
  | .broadPeak => BedColsOk 6 x ∧ (∃ s, x.signal = some s ∧ fc.isNaN s = false) ∧ PvalOk fc x.p ∧ PvalOk fc x.q ∧
      x.peak = none ∧ x.ival = none
  | .bgInt => x.name = none ∧ x.score = none ∧ x.strand = none ∧ x.signal = none ∧ x.p = none ∧ x.q = none ∧ x.peak = none ∧
      (∃ v : Int, x.ival = some v ∧ -(2^63 : Int) ≤ v ∧ v < 2^63)
  | .bgFloat => x.name = none ∧ x.score = none ∧ x.strand = none ∧ (∃ s, x.signal = some s ∧ fc.isNaN s = false) ∧
      x.p = none ∧ x.q = none ∧ x.peak = none ∧ x.ival = none

/-! ### C12: the column-wise expectation -/
def errClass : PErr → String
  | .missingChrom => "missingChrom" | .missingStart => "missingStart" | .invalidStart => "invalidStart"
  | .missingEnd => "missingEnd" | .invalidEnd => "invalidEnd" | .missingName => "missingName"
  | .missingScore => "missingScore" | .invalidScore => "invalidScore" | .missingStrand => "missingStrand"
  | .invalidStrand => "invalidStrand" | .missingValue => "other" | .invalidValue => "other"

/-- number of BED columns the type requires -/
def bedCols : Ty → Nat
  | .gr => 3 | .bed n => max 3 (min n 6) | .narrowPeak => 6 | .broadPeak => 6 | .bgInt => 3 | .bgFloat => 3
/-- well-formedness predicates of the type's format-specific columns, in order -/
def extraColOk {F : Type} (fc : FloatCodec F) : Ty → List (Bytes → Bool)
  | .narrowPeak => [fun f => (fc.parse f).isSome, fun f => (fc.parse f).isSome, fun f => (fc.parse f).isSome, fun f => (parseUnsigned U64MAX f).isSome]
  | .broadPeak => [fun f => (fc.parse f).isSome, fun f => (fc.parse f).isSome, fun f => (fc.parse f).isSome]
  | .bgInt => [fun f => (parseI64 f).isSome]
  | .bgFloat => [fun f => (fc.parse f).isSome]
  | _ => []
/-- well-formedness of BED column `k` (0 chrom, 1 start, 2 end, 3 name, 4 score, 5 strand) -/
def bedColOk (k : Nat) (f : Bytes) : Bool :=
  match k with
  | 1 | 2 => (parseUnsigned U64MAX f).isSome
  | 4 => f == DOT || (parseScore f).isSome
  | 5 => f == DOT || (parseStrand f).isSome
  | _ => true
def bedColErr (k : Nat) (missing : Bool) : PErr :=
  match k, missing with
  | 0, _ => .missingChrom | 1, true => .missingStart | 1, false => .invalidStart
  | 2, true => .missingEnd | 2, false => .invalidEnd | 3, _ => .missingName
  | 4, true => .missingScore | 4, false => .invalidScore | 5, true => .missingStrand | _, _ => .invalidStrand

def columnsOfLine (ty : Ty) (line : Bytes) : List Bytes :=
  match ty with
  | .gr => splitOn (fun c => c == TAB || c == COLON || c == DASH) line
  | _ => splitOn (· == TAB) line

inductive Expect | accept | bedError (e : PErr) | someError
deriving DecidableEq, Repr

/-- what the property demands of `parse(line)`: the first missing or malformed *BED* column decides
the error; a bad format-specific column demands some error; otherwise the line must be accepted,
whatever extra columns follow -/
def c12Expect {F : Type} (fc : FloatCodec F) (ty : Ty) (line : Bytes) : Expect :=
  let cols := columnsOfLine ty line
  let nb := bedCols ty
  match (List.range nb).find? (fun k => match cols[k]? with | none => true | some f => !bedColOk k f) with
  | some k => .bedError (bedColErr k (cols[k]?).isNone)
  | none =>
    let ex := extraColOk fc ty
    if (List.range ex.length).any (fun i => match cols[nb + i]?, ex[i]? with | some f, some okf => !okf f | _, _ => true) then .someError
    else .accept

end BV
