import Driver.Rec
import BedVerif.Spec.Coverage
/-!
Driver handlers for C05 and C06.
-/
namespace BV.Driver
open BV

def pCOp : Parser COp := do
  let t ← tok
  if t == "t" then do let r ← pRec; let k ← int; pure (.insert r k)
  else if t == "a" then do let i ← nat; let k ← int; pure (.insertAt i k)
  else if t == "r" then pure .reset
  else failure
def pBOp : Parser BOp := do
  let t ← tok
  if t == "t" then do let r ← pRec; let k ← int; pure (.insert r k)
  else if t == "r" then pure .reset
  else failure

def prefixes {β : Type} (l : List β) : List (List β) := (List.range l.length).map (fun i => l.take (i + 1))

/-! ## C05 -/
structure C05Step where
  dense : List Int
  sparse : List Int
  dtotal : Int
  stotal : Int
  dlen : Nat
  slen : Nat
deriving DecidableEq

def handleC05 (inp obs : List String) : Verdict :=
  let parsed := (do let _ty ← nat; let regions ← many pRec; let ops ← many pCOp; pure (regions, ops)).run inp
  let pobs : Option (Option (List C05Step) × List String) := (do
    match (← peek?) with
    | some "panic" => pure none
    | _ =>
      let l ← many (do
        let d ← many int; let s ← many int; let dt ← int; let st ← int; let dl ← nat; let sl ← nat
        pure (C05Step.mk d s dt st dl sl))
      pure (some l)).run obs
  match parsed, pobs with
  | some ((regions, ops), _), some (o, _) =>
    let n := regions.length
    -- LARGE region lists (more than 3000 regions): the model (an index over the regions built with an insertion sort) and
    -- the class histogram are quadratic; only the spec itself is evaluated on the implementation's observable
    if n > 3000 then
      match o with
      | none => { kind := "specfail", nontrivial := true, classes := ["large"], detail := "implementation panicked" }
      | some steps =>
        if steps.length != ops.length then { kind := "badcase", detail := "observable length" } else
        let bad := ((prefixes ops).zip steps).find? (fun (p, st) =>
          !(st.dense == specCountsFast regions p && st.sparse == st.dense && st.dtotal == specTotal p && st.stotal == st.dtotal && st.dlen == n && st.slen == n))
        match bad with
        | some (p, st) =>
          let sp := specCountsFast regions p
          let da := st.dense.toArray; let sa := st.sparse.toArray; let spa := sp.toArray
          let i := ((List.range n).find? (fun i => da.getD i 0 != spa.getD i 0 || sa.getD i 0 != spa.getD i 0)).getD 0
          { kind := "specfail", nontrivial := true, classes := ["large"],
            detail := s!"after {p.length} ops ({n} regions): totals {st.dtotal}/{st.stotal} (spec {specTotal p}) len {st.dlen}/{st.slen}; first differing region {i}: dense {da.getD i 0} sparse {sa.getD i 0} spec {spa.getD i 0}" }
        | none => { kind := "ok", nontrivial := true, classes := ["large"] }
    else
    let tags := ops.filterMap (fun | .insert t _ => some t | _ => none)
    let inserts := ops.filter (fun | .insert _ _ => true | .insertAt _ _ => true | _ => false)
    let final := specCounts regions ops
    let nontrivial := inserts.length ≥ 2 && (prefixes ops).any (fun p => (specCounts regions p).any (· != 0))
    let classes :=
      (if tags.any (fun t => regions.any (fun r => r.chrom == t.chrom && (r.stop == t.start || t.stop == r.start))) then ["tag-touches-boundary"] else []) ++
      (if tags.any (fun t => (regions.filter (·.ov t)).length ≥ 3) then ["tag-spans-3-regions"] else []) ++
      (if tags.any (fun t => !regions.any (fun r => r.chrom == t.chrom)) then ["tag-on-chrom-without-regions"] else []) ++
      (if regions.length != regions.eraseDups.length then ["duplicated-regions"] else []) ++
      (if regions.isEmpty then ["empty-region-list"] else []) ++
      (match ops with | .reset :: _ => ["reset-at-start"] | _ => []) ++
      (if (ops.zip (ops.drop 1)).any (fun | (.reset, .reset) => true | _ => false) then ["reset-twice"] else []) ++
      (if (ops.zip (ops.drop 1)).any (fun | (.insert _ _, .reset) => true | (.insertAt _ _, .reset) => true | _ => false) then ["reset-between"] else []) ++
      (if ops.any (fun | .insert _ k => k == 0 | .insertAt _ k => k == 0 | _ => false) then ["multiplicity-0"] else []) ++
      (if ops.any (fun | .insert _ k => k < 0 | .insertAt _ k => k < 0 | _ => false) then ["multiplicity-negative"] else []) ++
      (if ops.any (fun | .insert _ k => k > 1000000 | .insertAt _ k => k > 1000000 | _ => false) then ["multiplicity-large"] else []) ++
      (if ops.any (fun | .insertAt _ _ => true | _ => false) then ["insert-at-index"] else []) ++
      (if final.any (· != 0) then [] else [])
    match o with
    | none => { kind := "specfail", nontrivial, classes, detail := "implementation panicked" }
    | some steps =>
      if steps.length != ops.length then { kind := "badcase", detail := "observable length" } else
      let bad := ((prefixes ops).zip steps).find? (fun (p, st) =>
        !(st.dense == specCounts regions p && st.sparse == st.dense && st.dtotal == specTotal p && st.stotal == st.dtotal && st.dlen == n && st.slen == n))
      match bad with
      | some (p, st) =>
        { kind := "specfail", nontrivial, classes,
          detail := s!"after {p.length} ops: dense {st.dense} sparse {st.sparse} totals {st.dtotal}/{st.stotal} len {st.dlen}/{st.slen}; spec counts {specCounts regions p} total {specTotal p}; regions {showRecs regions}" }
      | none =>
        let bad2 := ((prefixes ops).zip steps).find? (fun (p, st) =>
          let d := Dense.run regions p
          let s := Sparse.run regions p
          !(d.counts == st.dense && asVec n s.m == st.sparse && d.total == st.dtotal && s.total == st.stotal))
        match bad2 with
        | some (p, _) => { kind := "diverge", nontrivial, classes, detail := s!"model differs after {p.length} ops: {(Dense.run regions p).counts}" }
        | none => { kind := "ok", nontrivial, classes }
  | _, _ => { kind := "badcase", detail := "unparsable C05 case" }

/-! ## C06 -/
structure C06Step where
  dense : List (List Int)
  sparse : List Int
  dtotal : Int
  stotal : Int
deriving DecidableEq

structure C06Obs where
  steps : List C06Step
  dlen : Nat
  slen : Nat
  dregions : List Rec
  sregions : List Rec
  lookups : List (Option Rec × Option Bytes)     -- get_region(i), get_chrom(i), i = 0 .. len+3 ; none = None
  lookupPanics : List (Bool × Bool)
deriving DecidableEq

def pOptPanic {β : Type} (p : Parser β) : Parser (Option β × Bool) := do
  let t ← tok
  if t == "P" then pure (none, true)
  else if t == "0" then pure (none, false)
  else if t == "1" then do let x ← p; pure (some x, false)
  else failure

def handleC06 (inp obs : List String) : Verdict :=
  let parsed := (do let _ty ← nat; let regions ← many pRec; let bin ← nat; let ops ← many pBOp; pure (regions, bin, ops)).run inp
  let pobs : Option (Option C06Obs × List String) := (do
    match (← peek?) with
    | some "panic" => pure none
    | _ =>
      let steps ← many (do
        let d ← many (many int); let s ← many int; let dt ← int; let st ← int
        pure (C06Step.mk d s dt st))
      let dl ← nat; let sl ← nat
      let dr ← many pRec; let sr ← many pRec
      let lk ← many (do let a ← pOptPanic pRec; let b ← pOptPanic bytes; pure ((a.1, b.1), (a.2, b.2)))
      pure (some (C06Obs.mk steps dl sl dr sr (lk.map (fun (x : (Option Rec × Option Bytes) × (Bool × Bool)) => x.1)) (lk.map (fun (x : (Option Rec × Option Bytes) × (Bool × Bool)) => x.2))))).run obs
  match parsed, pobs with
  | some ((regions, bin, ops), _), some (o, _) =>
    let bins := allBins regions bin
    let total := bins.length
    let tags := ops.filterMap (fun | .insert t _ => some t | _ => none)
    let hits := tags.flatMap (fun t => (regions.filter (·.ov t)).map (fun r => (r, t)))
    let nontrivial := tags.length ≥ 2 && (specBinned regions bin ops).any (fun row => row.any (· != 0)) &&
      hits.any (fun (r, t) => match binRange r t bin with
        | .ok (i, j) => i < j || (t.start ≥ r.start && (t.start - r.start) % bin == 0) || (t.stop ≥ r.start && (t.stop - r.start) % bin == 0)
        | .panic => false)
    let classes :=
      (if bin == 1 then ["bin-1"] else []) ++
      (if regions.any (fun r => r.blen % bin == 0 && bin < r.blen) then ["bin-divides"] else []) ++
      (if regions.any (fun r => r.blen % bin != 0 && bin < r.blen) then ["bin-not-divides"] else []) ++
      (if regions.any (fun r => r.blen == bin) then ["bin-eq-len"] else []) ++
      (if regions.any (fun r => r.blen < bin) then ["bin-gt-len"] else []) ++
      (if hits.any (fun (r, t) => t.start < r.start) then ["tag-starts-before-region"] else []) ++
      (if hits.any (fun (r, t) => t.stop > r.stop) then ["tag-ends-after-region"] else []) ++
      (if hits.any (fun (r, t) => t.start > r.start && (t.start - r.start) % bin == 0) then ["tag-start-on-bin-edge"] else []) ++
      (if hits.any (fun (r, t) => t.stop > r.start && t.stop < r.stop && (t.stop - r.start) % bin == 0) then ["tag-end-on-bin-edge"] else []) ++
      (if hits.any (fun (r, t) => t.blen == 1 && (t.start - r.start) / bin + 1 == nbins r bin && t.start ≥ r.start) then ["one-base-tag-in-last-bin"] else []) ++
      (if hits.any (fun (r, t) => t.blen == 1 && t.start == r.start) then ["one-base-tag-in-first-bin"] else []) ++
      (if hits.any (fun (r, t) => t.start ≤ r.start && t.stop ≥ r.stop && nbins r bin ≥ 2) then ["tag-spans-all-bins"] else []) ++
      (if regions.isEmpty then ["empty-region-list"] else []) ++
      (if regions.length != regions.eraseDups.length then ["duplicated-regions"] else []) ++
      (if ops.any (fun | .reset => true | _ => false) then ["reset"] else []) ++
      (if regions.any (fun r => r.stop + bin > 18446744073709551615) then ["top-of-range"] else [])
    match o with
    | none => { kind := "specfail", nontrivial, classes, detail := "implementation panicked" }
    | some o =>
      if o.steps.length != ops.length then { kind := "badcase", detail := "observable length" } else
      let badStep := ((prefixes ops).zip o.steps).find? (fun (p, st) =>
        !(st.dense == specBinned regions bin p && st.sparse == st.dense.flatten && st.dtotal == specBTotal p && st.stotal == st.dtotal))
      let expectLookups := (List.range (total + 4)).map (fun i => (bins[i]?, (bins[i]?).map (·.chrom)))
      let specFail : Option String :=
        match badStep with
        | some (p, st) => some s!"after {p.length} ops: dense {st.dense} sparse {st.sparse} totals {st.dtotal}/{st.stotal}; spec {specBinned regions bin p}; regions {showRecs regions} bin {bin}"
        | none =>
          if o.dlen != total || o.slen != total then some s!"len {o.dlen}/{o.slen}, number of bins {total}"
          else if o.dregions != bins || o.sregions != bins then some s!"regions() = {showRecs o.dregions} / {showRecs o.sregions}; tiling {showRecs bins}"
          else if o.lookupPanics.any (fun (a, b) => a || b) then
            some s!"get_region/get_chrom panicked at index {(o.lookupPanics.takeWhile (fun (a, b) => !(a || b))).length} (len {total})"
          else if o.lookups != expectLookups then
            let i := ((o.lookups.zip expectLookups).takeWhile (fun (a, b) => a == b)).length
            some s!"index {i} (len {total}): get_region = {(o.lookups.getD i (none, none)).1.map showRec}, get_chrom = {(o.lookups.getD i (none, none)).2.map hexEncode}; expected {(bins[i]?).map showRec}"
          else none
      match specFail with
      | some d => { kind := "specfail", nontrivial, classes, detail := d }
      | none =>
        let bad2 := ((prefixes ops).zip o.steps).find? (fun (p, st) =>
          match BDense.run regions bin p, BSparse.run regions bin p with
          | .ok d, .ok s => !(d.cov == st.dense && asVec total s.m == st.sparse && d.total == st.dtotal && s.total == st.stotal)
          | _, _ => true)
        let lookModel := (List.range (total + 4)).all (fun i =>
          getRegion regions bin i == .ok (o.lookups.getD i (none, none)).1 && getChrom regions bin i == .ok (o.lookups.getD i (none, none)).2)
        if bad2.isSome || !lookModel || (accu regions bin).2 != o.slen then
          { kind := "diverge", nontrivial, classes, detail := "model counters or lookups differ" }
        else { kind := "ok", nontrivial, classes }
  | _, _ => { kind := "badcase", detail := "unparsable C06 case" }

end BV.Driver
