import Driver.Proto
import Driver.Large
import BedVerif.Spec.Lapper
/-!
Driver handlers for C02, C11, C16–C20.
-/
namespace BV.Driver
open BV

def pRec : Parser Rec := do let c ← bytes; let s ← nat; let e ← nat; pure ⟨c, s, e⟩
def pRecVal : Parser (Rec × Nat) := do let r ← pRec; let v ← nat; pure (r, v)
def pIv : Parser (Iv Nat) := do let s ← nat; let e ← nat; let v ← nat; pure ⟨s, e, v⟩
def pQ : Parser (Nat × Nat) := do let s ← nat; let e ← nat; pure (s, e)
def pOp : Parser (Op Nat) := do
  let t ← tok
  if t == "i" then do let iv ← pIv; pure (.insert iv)
  else if t == "m" then pure .merge
  else if t == "c" then pure .setCov
  else failure

def recValLe (a b : Rec × Nat) : Bool :=
  match cmpBytes a.1.chrom b.1.chrom with
  | .lt => true | .gt => false
  | .eq => natListLe [a.1.start, a.1.stop, a.2] [b.1.start, b.1.stop, b.2]
def canonRV (l : List (Rec × Nat)) : List (Rec × Nat) := isort recValLe l
def ivLe (a b : Iv Nat) : Bool := natListLe [a.start, a.stop, a.val] [b.start, b.stop, b.val]
def canonIv (l : List (Iv Nat)) : List (Iv Nat) := isort ivLe l

def showRV (l : List (Rec × Nat)) : String :=
  " ".intercalate (l.map (fun x => s!"({hexEncode x.1.chrom}:{x.1.start}-{x.1.stop}#{x.2})"))
def showIvs (l : List (Iv Nat)) : String :=
  " ".intercalate (l.map (fun x => s!"[{x.start},{x.stop})#{x.val}"))

/-! ## C02 -/
structure C02Obs where
  len : Nat
  iter : List (Rec × Nat)
  queries : List (Bool × List (Rec × Nat))
deriving DecidableEq

def pC02Obs : Parser (Option C02Obs) := do
  match (← peek?) with
  | some "panic" => pure none
  | _ =>
    let len ← nat
    let it ← many pRecVal
    let qs ← many (do let b ← bool; let f ← many pRecVal; pure (b, canonRV f))
    pure (some ⟨len, canonRV it, qs⟩)

def c02Classes (m : GMap Nat) (records : List (Rec × Nat)) (q : Rec) : List String :=
  let t := (GMap.get? m q.chrom)
  let same := records.filter (fun x => x.1.chrom == q.chrom)
  (match t with
   | none => ["unknown-chrom"]
   | some t =>
     (if same.any (fun x => x.1.ov q && x.1.start + t.maxLen == q.start + 1) then ["hit-at-maxlen-edge"] else []) ++
     (if same.any (fun x => x.1.ov q && x.1.stop - x.1.start == t.maxLen) then ["longest-is-hit"] else [])) ++
  (if same.any (fun x => x.1.stop == q.start) then ["stop-eq-qstart"] else []) ++
  (if same.any (fun x => x.1.start == q.stop) then ["start-eq-qstop"] else []) ++
  (if same.any (fun x => x.1.stop == q.start + 1) then ["stop-eq-qstart+1"] else []) ++
  (if same.any (fun x => x.1.start == x.1.stop && q.start ≤ x.1.start && x.1.start ≤ q.stop) then ["zero-length-near"] else []) ++
  (if !same.isEmpty && same.all (fun x => x.1.stop ≤ q.start) then ["right-of-all"] else []) ++
  (if !same.isEmpty && same.all (fun x => x.1.start ≥ q.stop) then ["left-of-all"] else []) ++
  (if q.stop == U64MAX || same.any (fun x => x.1.stop == U64MAX) then ["u64max"] else [])

def handleC02 (inp obs : List String) : Verdict :=
  let parsed := (do
    let bulk ← many pRecVal; let ins ← many pRecVal; let qs ← many pRec
    pure (bulk, ins, qs)).run inp
  match parsed, pC02Obs.run obs with
  | some ((bulk, ins, qs), _), some (o, _) =>
    let m := GMap.build bulk ins
    let records := bulk ++ ins
    let model : C02Obs := ⟨GMap.len m, canonRV (GMap.iter m),
      qs.map (fun q => (GMap.isOverlapped m q, canonRV (GMap.find m q)))⟩
    let nontrivial := records.length ≥ 2 && qs.any (fun q =>
      let same := records.filter (fun x => x.1.chrom == q.chrom)
      same.any (fun x => x.1.ov q) && same.any (fun x => !x.1.ov q))
    let classes := (qs.flatMap (c02Classes m records)).eraseDups ++
      (if bulk.isEmpty then ["insert-only"] else if ins.isEmpty then ["bulk-only"] else ["bulk+inserts"])
    match o with
    | none => { kind := "specfail", nontrivial, classes, detail := "implementation panicked" }
    | some o =>
      -- the spec itself, evaluated on the implementation's observable
      let specOk := o.len == records.length && o.iter == canonRV records &&
        o.queries.length == qs.length &&
        (qs.zip o.queries).all (fun (q, (b, f)) => f == canonRV (specFind records q) && b == !f.isEmpty)
      if !specOk then
        let bad := (qs.zip o.queries).find? (fun (q, (b, f)) => !(f == canonRV (specFind records q) && b == !f.isEmpty))
        let d := match bad with
          | some (q, (b, f)) => s!"query {hexEncode q.chrom}:{q.start}-{q.stop}: impl find = {showRV f} is_overlapped = {b}; spec = {showRV (canonRV (specFind records q))}"
          | none => s!"len/iter: impl len {o.len}, spec {records.length}; impl iter {showRV o.iter}"
        { kind := "specfail", nontrivial, classes, detail := d }
      else if o != model then
        { kind := "diverge", nontrivial, classes, detail := s!"model len {model.len} iter {showRV model.iter}" }
      else { kind := "ok", nontrivial, classes }
  | _, _ => { kind := "badcase", detail := "unparsable C02 case" }

/-! ## Lapper histories (C16–C20) -/
def pHist : Parser (List (Iv Nat) × List (Op Nat)) := do
  let init ← many pIv; let ops ← many pOp; pure (init, ops)

def hasMerge (ops : List (Op Nat)) : Bool := ops.any (fun | .merge => true | _ => false)

/-- the largest start plus the longest length does not fit the coordinate type (u64): sums such as
`start + max_len` overflow in the implementation while the model's naturals do not -/
def topOfRange (l : List (Iv Nat)) : Bool :=
  l.foldl (fun m iv => max m iv.start) 0 + l.foldl (fun m iv => max m (iv.stop - iv.start)) 0 ≥ 2 ^ 64
def insertedOf (ops : List (Op Nat)) : List (Iv Nat) := ops.filterMap (fun | .insert iv => some iv | _ => none)

/-! ## C16 -/
def handleC16 (inp obs : List String) : Verdict :=
  -- large histories (> Large.threshold intervals): spec only, near-linear time (Driver/Large.lean)
  match Large.c16? false inp obs with
  | some v => v
  | none =>
  let parsed := (do let h ← pHist; let qs ← many pQ; pure (h, qs)).run inp
  let pobs : Option (Option (List (Nat × Nat)) × List String) := (do
    match (← peek?) with
    | some "panic" => pure none
    | _ => let l ← many pQ; pure (some l)).run obs
  match parsed, pobs with
  | some (((init, ops), qs), _), some (o, _) =>
    let s := Lapper.run init ops
    let ivs := s.intervals.toList
    -- what is stored: without a merge it is the history's records; after a merge, the model's intervals
    let stored := if hasMerge ops then ivs else init ++ insertedOf ops
    let endpoints := stored.flatMap (fun iv => [iv.start, iv.stop])
    let nontrivial := stored.length ≥ 2 && qs.any (fun q => endpoints.contains q.1 || endpoints.contains q.2)
    let minStart := stored.foldl (fun m iv => min m iv.start) (stored.headD default).start
    let maxStopV := stored.foldl (fun m iv => max m iv.stop) 0
    let classes :=
      (if qs.any (fun q => !stored.isEmpty && q.2 == minStart) then ["qstop-eq-smallest-start"] else []) ++
      (if qs.any (fun q => !stored.isEmpty && q.1 == maxStopV) then ["qstart-eq-largest-stop"] else []) ++
      (if qs.any (fun q => stored.any (fun iv => iv.stop == q.1)) then ["qstart-eq-some-stop"] else []) ++
      (if qs.any (fun q => stored.any (fun iv => iv.start == q.2)) then ["qstop-eq-some-start"] else []) ++
      (if stored.isEmpty then ["empty-set"] else []) ++
      (if stored.any (fun iv => iv.start == iv.stop) then ["zero-length"] else []) ++
      (if hasMerge ops then ["after-merge"] else []) ++
      (if !(insertedOf ops).isEmpty then ["after-insert"] else []) ++
      (if topOfRange stored then ["top-of-range"] else [])
    match o with
    | none => { kind := "specfail", nontrivial, classes, detail := "implementation panicked" }
    | some o =>
      let truth := qs.map (fun q => stored.countP (·.ov q.1 q.2))
      let bad := ((qs.zip o).zip truth).find? (fun ((_, (c, f)), t) => !(c == f && c == t))
      if o.length != qs.length then { kind := "badcase", detail := "observable length" } else
      match bad with
      | some ((q, (c, f)), t) =>
        { kind := "specfail", nontrivial, classes,
          detail := s!"query [{q.1},{q.2}): count = {c}, find().count() = {f}, overlapping stored intervals = {t}; stored = {showIvs stored}" }
      | none =>
        let model := qs.map (fun q => (s.count q.1 q.2, (s.find q.1 q.2).length))
        if model != o then { kind := "diverge", nontrivial, classes, detail := s!"model {model}" }
        else { kind := "ok", nontrivial, classes }
  | _, _ => { kind := "badcase", detail := "unparsable C16 case" }


/-! ## C17 -/
def seekAllC (s : Lapper Nat) : List (Nat × Nat) → Nat → List (List (Iv Nat) × Nat)
  | [], _ => []
  | (qs, qe) :: rest, c => let r := s.seek qs qe c; (r.1, r.2) :: seekAllC s rest r.2

def handleC17 (inp obs : List String) : Verdict :=
  -- large histories (> Large.threshold intervals): spec only, near-linear time (Driver/Large.lean)
  match Large.c17? false inp obs with
  | some v => v
  | none =>
  let parsed := (do let h ← pHist; let qs ← many pQ; pure (h, qs)).run inp
  let pobs : Option (Option (List (List (Iv Nat) × List (Iv Nat))) × List String) := (do
    match (← peek?) with
    | some "panic" => pure none
    | _ => let l ← many (do let a ← many pIv; let b ← many pIv; pure (canonIv a, canonIv b)); pure (some l)).run obs
  match parsed, pobs with
  | some (((init, ops), qs), _), some (o, _) =>
    let s := Lapper.run init ops
    let ivs := s.intervals.toList
    -- which value a merged interval carries is not fixed by the property: after a merge intervals are
    -- compared by (start, stop) only
    let forget (l : List (Iv Nat)) : List (Iv Nat) := if hasMerge ops then canonIv (l.map (fun iv => { iv with val := 0 })) else l
    let o := o.map (fun l => l.map (fun (ab : List (Iv Nat) × List (Iv Nat)) => (forget ab.1, forget ab.2)))
    let stored := if hasMerge ops then forget ivs else init ++ insertedOf ops
    let run := seekAllC s qs 0
    let maxStart := stored.foldl (fun m iv => max m iv.start) 0
    let minStart := stored.foldl (fun m iv => min m iv.start) (stored.headD default).start
    let nontrivial := stored.length ≥ 2 && qs.length ≥ 2
    let classes :=
      (if (qs.zip (qs.drop 1)).any (fun (a, b) => a == b) then ["repeated-query"] else []) ++
      (if qs.any (fun q => q.1 > maxStart) && !stored.isEmpty then ["past-last-interval"] else []) ++
      (if qs.any (fun q => q.2 ≤ minStart) && !stored.isEmpty then ["before-first-interval"] else []) ++
      (if run.any (fun r => r.2 + 1 ≥ s.intervals.size && r.2 > 0) then ["cursor-at-end"] else []) ++
      (if stored.any (fun iv => iv.stop - iv.start ≥ 1000 && stored.countP (fun j => iv.start ≤ j.start && j.stop ≤ iv.stop) ≥ 4) then ["huge-over-small"] else []) ++
      (if stored.isEmpty then ["empty-set"] else []) ++
      (if (ivs.zip (ivs.drop 1)).any (fun (a, b) => a.start == b.start && a.stop < b.stop) then ["equal-starts-growing-stops"] else []) ++
      (if hasMerge ops then ["after-merge"] else []) ++
      (if topOfRange stored then ["top-of-range"] else [])
    match o with
    | none => { kind := "specfail", nontrivial, classes, detail := "implementation panicked (seek or find)" }
    | some o =>
      if o.length != qs.length then { kind := "badcase", detail := "observable length" } else
      let truth := qs.map (fun q => canonIv (stored.filter (·.ov q.1 q.2)))
      let bad := ((qs.zip o).zip truth).find? (fun ((_, (sk, fd)), t) => !(sk == fd && sk == t))
      match bad with
      | some ((q, (sk, fd)), t) =>
        { kind := "specfail", nontrivial, classes,
          detail := s!"query [{q.1},{q.2}): seek = {showIvs sk}; find = {showIvs fd}; overlapping stored = {showIvs t}; queries so far {(qs.takeWhile (· != q)).length}" }
      | none =>
        let model := run.map (fun r => forget (canonIv r.1))
        if model != o.map (·.1) then { kind := "diverge", nontrivial, classes, detail := "model seek differs" }
        else { kind := "ok", nontrivial, classes }
  | _, _ => { kind := "badcase", detail := "unparsable C17 case" }

/-! ## C11 -/
structure C11Obs where
  len : Nat
  iter : List Rec
  intoIter : List Rec
  gets : List (Option Rec × Option Rec)       -- get(i), index(i) (none = panicked) for i in 0..len+3
  queries : List (Bool × List Rec × List Nat × List (Rec × Nat))  -- is_overlapped, find, find_index_of, find_full
  mapLen : Nat
  mapGets : List (Option Nat)
  mapQueries : List (List (Rec × Nat) × List (Rec × Nat))  -- IndexMap.find (values), find_index_of
deriving DecidableEq

def recLe (a b : Rec) : Bool := recValLe (a, 0) (b, 0)
def canonR (l : List Rec) : List Rec := isort recLe l
def canonN (l : List Nat) : List Nat := sortNat l

def pC11Obs : Parser (Option C11Obs) := do
  match (← peek?) with
  | some "panic" => pure none
  | _ =>
    let len ← nat
    let it ← many pRec
    let into ← many pRec
    let gets ← many (do let a ← opt pRec; let b ← opt pRec; pure (a, b))
    let qs ← many (do
      let b ← bool; let f ← many pRec; let fi ← many nat; let ff ← many pRecVal
      pure (b, canonR f, canonN fi, canonRV ff))
    let mlen ← nat
    let mg ← many (opt nat)
    let mq ← many (do let f ← many pRecVal; let fi ← many pRecVal; pure (canonRV f, canonRV fi))
    pure (some ⟨len, it, into, gets, qs, mlen, mg, mq⟩)

/-- values of the IndexMap in the cases are `1000 + i` -/
def mapVal (i : Nat) : Nat := 1000 + i

def handleC11 (inp obs : List String) : Verdict :=
  let parsed := (do let xs ← many pRec; let qs ← many pRec; pure (xs, qs)).run inp
  match parsed, pC11Obs.run obs with
  | some ((xs, qs), _), some (o, _) =>
    let n := xs.length
    -- LARGE region sets (more than 3000 regions): the model and the class histogram are quadratic (insertion sort, list
    -- indexing); only the spec itself is evaluated on the implementation's observable, with array indexing
    if n > 3000 then
      let a := xs.toArray
      let hitIdx (q : Rec) : List Nat := (List.range n).filter (fun i => (a.getD i default).ov q)
      match o with
      | none => { kind := "specfail", nontrivial := true, classes := ["large"], detail := "implementation panicked" }
      | some o =>
        let specGets := (List.range (n + 3)).map (fun i => (a[i]?, a[i]?))
        let specQ := qs.map (fun q =>
          let idx := hitIdx q
          (!idx.isEmpty, canonR (idx.map (fun i => a.getD i default)), canonN idx,
           canonRV (idx.map (fun i => (a.getD i default, i)))))
        let specMQ := qs.map (fun q =>
          let idx := hitIdx q
          (canonRV (idx.map (fun i => (a.getD i default, mapVal i))), canonRV (idx.map (fun i => (a.getD i default, i)))))
        let spec : C11Obs := ⟨n, xs, xs, specGets, specQ, n, (List.range (n + 3)).map (fun i => if i < n then some (mapVal i) else none), specMQ⟩
        if o != spec then
          let d :=
            if o.len != n then s!"len {o.len} ≠ {n}"
            else if o.iter != xs || o.intoIter != xs then "iteration order differs from supply order"
            else if o.gets != specGets then s!"get/index differ from the supplied sequence"
            else if o.queries != specQ then
              match (qs.zip (o.queries.zip specQ)).find? (fun (_, (a, b)) => a != b) with
              | some (q, (a, b)) => s!"query {hexEncode q.chrom}:{q.start}-{q.stop}: find_index_of = {a.2.2.1.take 12}, expected positions {b.2.2.1.take 12}; is_overlapped = {a.1}"
              | none => "query count"
            else "IndexMap observable differs"
          { kind := "specfail", nontrivial := true, classes := ["large"], detail := d }
        else { kind := "ok", nontrivial := true, classes := ["large"] }
    else
    let s := IndexSet.fromIter xs
    let im := IndexMap.fromIter (enumFrom 0 xs |>.map (fun x => (x.1, mapVal x.2)))
    let hitIdx (q : Rec) : List Nat := (List.range n).filter (fun i => (xs.getD i default).ov q)
    let nontrivial := n ≥ 2 && qs.any (fun q => !(hitIdx q).isEmpty && (hitIdx q).length < n)
    let classes :=
      (if xs.length != xs.eraseDups.length then ["duplicates"] else []) ++
      (if (xs.zip (xs.drop 1)).any (fun (a, b) => a.chrom != b.chrom) && xs.eraseDups.length > 2 then ["interleaved-chromosomes"] else []) ++
      (if (xs.zip (xs.drop 1)).any (fun (a, b) => a.chrom == b.chrom && b.start < a.start) then ["unsorted-coordinates"] else []) ++
      (if n == 0 then ["empty-set"] else []) ++
      (if qs.any (fun q => (hitIdx q).length ≥ 2 && ((hitIdx q).map (fun i => xs.getD i default)).eraseDups.length < (hitIdx q).length) then ["query-hits-duplicates"] else [])
    match o with
    | none => { kind := "specfail", nontrivial, classes, detail := "implementation panicked" }
    | some o =>
      -- spec on the implementation's observable
      let specGets := (List.range (n + 3)).map (fun i => (xs[i]?, xs[i]?))
      let specQ := qs.map (fun q =>
        let idx := hitIdx q
        (!idx.isEmpty, canonR (idx.map (fun i => xs.getD i default)), canonN idx,
         canonRV (idx.map (fun i => (xs.getD i default, i)))))
      let specMQ := qs.map (fun q =>
        let idx := hitIdx q
        (canonRV (idx.map (fun i => (xs.getD i default, mapVal i))), canonRV (idx.map (fun i => (xs.getD i default, i)))))
      let spec : C11Obs := ⟨n, xs, xs, specGets, specQ, n, (List.range (n + 3)).map (fun i => if i < n then some (mapVal i) else none), specMQ⟩
      if o != spec then
        let d :=
          if o.len != n then s!"len {o.len} ≠ {n}"
          else if o.iter != xs || o.intoIter != xs then "iteration order differs from supply order"
          else if o.gets != specGets then s!"get/index differ from the supplied sequence"
          else if o.queries != specQ then
            match (qs.zip (o.queries.zip specQ)).find? (fun (_, (a, b)) => a != b) with
            | some (q, (a, b)) => s!"query {hexEncode q.chrom}:{q.start}-{q.stop}: find_index_of = {a.2.2.1}, expected positions {b.2.2.1}; is_overlapped = {a.1}"
            | none => "query count"
          else "IndexMap observable differs"
        { kind := "specfail", nontrivial, classes, detail := d }
      else
        -- the model must agree with the (spec-conforming) implementation
        let mQ := qs.map (fun q => (s.isOverlapped q, canonR (s.find q), canonN (s.findIndexOf q), canonRV (s.findFull q)))
        let mMQ := qs.map (fun q => (match im.find q with | .ok l => canonRV l | .panic => [(default, 0)], canonRV (im.findIndexOf q)))
        if s.len != o.len || mQ != o.queries || mMQ != o.mapQueries || (List.range (n+3)).map (fun i => (s.get i, s.get i)) != o.gets then
          { kind := "diverge", nontrivial, classes, detail := "model observable differs" }
        else { kind := "ok", nontrivial, classes }
  | _, _ => { kind := "badcase", detail := "unparsable C11 case" }

end BV.Driver
