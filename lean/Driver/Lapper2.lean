import Driver.Lapper
/-!
Driver handlers for C18, C19, C20.
The position-counting specs (`coveredCount`, `canonicalCover`, `unionCount`, …) enumerate
`0 .. maxStop`; they are evaluated when `maxStop ≤ specLimit`, otherwise only the comparison with
the (proved) model is made.
-/
namespace BV.Driver
open BV

def specLimit : Nat := 60000

def se (l : List (Iv Nat)) : List (Nat × Nat) := l.map (fun i => (i.start, i.stop))
def seLe (a b : Nat × Nat) : Bool := natListLe [a.1, a.2] [b.1, b.2]
def canonSE (l : List (Nat × Nat)) : List (Nat × Nat) := isort seLe l
def ivOf (p : Nat × Nat) : Iv Nat := ⟨p.1, p.2, 0⟩
def pPairs : Parser (List (Nat × Nat)) := many pQ

/-- the content the structure must hold after a history, by the specification alone:
`new`/`insert` add records, `merge_overlaps` replaces the content by its canonical cover -/
def specContent (init : List (Iv Nat)) (ops : List (Op Nat)) : List (Nat × Nat) :=
  ops.foldl (fun c o => match o with
    | .insert iv => c ++ [(iv.start, iv.stop)]
    | .merge => canonicalCover (c.map ivOf)
    | .setCov => c) (se init)

def suppliedOf (init : List (Iv Nat)) (ops : List (Op Nat)) : List (Iv Nat) := init ++ insertedOf ops

def overlapClasses (l : List (Iv Nat)) : List String :=
  let ps := l.zip (l.drop 1)
  (if ps.any (fun (a, b) => a.stop == b.start) then ["book-ended"] else []) ++
  (if l.any (fun a => l.all (fun b => a.start ≤ b.start && b.stop ≤ a.stop)) && l.length ≥ 3 then ["one-spans-all"] else []) ++
  (if l.length != (se l).eraseDups.length then ["duplicates"] else []) ++
  (if l.any (fun a => l.any (fun b => a.start < b.start && b.stop < a.stop)) then ["nested"] else []) ++
  (if l.isEmpty then ["empty-set"] else []) ++ (if l.length == 1 then ["single"] else []) ++
  (if l.any (fun a => a.start == 0) then ["starts-at-0"] else []) ++
  (if ps.any (fun (a, b) => a.stop + 1 < b.start) then ["separated-clusters"] else [])

def touches (l : List (Iv Nat)) : Bool :=
  (List.range l.length).any (fun i => (List.range l.length).any (fun j => i < j &&
    max (l.getD i default).start (l.getD j default).start ≤ min (l.getD i default).stop (l.getD j default).stop))

/-! ## C18 -/
structure C18Obs where
  iter : List (Nat × Nat)
  cov : Nat
  queries : List (List (Nat × Nat) × Nat × List (Nat × Nat))   -- find, count, seek (fresh cursor)
  merged : List (Nat × Nat)         -- iter after one more merge_overlaps
  covAfter : Nat
  mergedTwice : List (Nat × Nat)
  afterInsert : List (Nat × Nat) × Nat   -- (find, count) of the probe query after inserting the probe interval
deriving DecidableEq

def handleC18 (inp obs : List String) : Verdict :=
  -- large histories (> Large.threshold intervals): spec only, near-linear time (Driver/Large.lean)
  match Large.c18? false inp obs with
  | some v => v
  | none =>
  let parsed := (do let h ← pHist; let qs ← many pQ; let probe ← pIv; pure (h, qs, probe)).run inp
  let pobs : Option (Option C18Obs × List String) := (do
    match (← peek?) with
    | some "panic" => pure none
    | _ =>
      let it ← pPairs; let cov ← nat
      let qs ← many (do let f ← pPairs; let c ← nat; let s ← pPairs; pure (canonSE f, c, canonSE s))
      let m ← pPairs; let ca ← nat; let m2 ← pPairs
      let af ← pPairs; let ac ← nat
      pure (some (C18Obs.mk it cov qs m ca m2 (canonSE af, ac)))).run obs
  match parsed, pobs with
  | some (((init, ops), qs, probe), _), some (o, _) =>
    let supplied := suppliedOf init ops
    let s := Lapper.run init ops
    let sm := s.mergeOverlaps
    let s3 := sm.insert probe
    let nontrivial := touches supplied && hasMerge ops
    let classes := overlapClasses (canonIv supplied) ++ (if hasMerge ops then ["history-has-merge"] else []) ++
      (if (ops.dropWhile (fun | .merge => false | _ => true)).any (fun | .insert _ => true | _ => false) then ["insert-after-merge"] else []) ++
      (if topOfRange supplied then ["top-of-range"] else [])
    match o with
    | none => { kind := "specfail", nontrivial, classes, detail := "implementation panicked" }
    | some o =>
      let small := maxStop supplied ≤ specLimit && maxStop [probe] ≤ specLimit
      let specFail : Option String :=
        if !small then none else
        let content := specContent init ops
        let cIv := content.map ivOf
        let canon := canonicalCover cIv
        let after := canon ++ [(probe.start, probe.stop)]
        if o.iter != canonSE content then some s!"iter = {o.iter}, expected content {canonSE content}"
        else if o.cov != coveredCount cIv then some s!"cov = {o.cov}, covered positions = {coveredCount cIv}"
        else if o.merged != canon then some s!"after merge_overlaps iter = {o.merged}, canonical cover = {canon}"
        else if o.mergedTwice != o.merged then some s!"merge_overlaps is not idempotent: {o.mergedTwice} vs {o.merged}"
        else if o.covAfter != coveredCount cIv then some s!"cov after merge = {o.covAfter}, covered positions = {coveredCount cIv}"
        else
          match (qs.zip o.queries).find? (fun (q, (f, c, sk)) =>
              let t := canonSE (content.filter (fun x => (ivOf x).ov q.1 q.2))
              !(f == t && c == t.length && sk == t)) with
          | some (q, (f, c, sk)) => some s!"query [{q.1},{q.2}): find {f} count {c} seek {sk}; content {canonSE content}"
          | none =>
            let t := canonSE (after.filter (fun x => (ivOf x).ov probe.start probe.stop))
            if o.afterInsert != (t, t.length) then some s!"after inserting [{probe.start},{probe.stop}) into the merged set: find/count = {o.afterInsert.1}/{o.afterInsert.2}, expected {t}"
            else none
      match specFail with
      | some d => { kind := "specfail", nontrivial, classes, detail := d }
      | none =>
        let model : C18Obs := ⟨se s.intervals.toList, s.getCov,
          qs.map (fun q => (canonSE (se (s.find q.1 q.2)), s.count q.1 q.2, canonSE (se (s.seek q.1 q.2 0).1))),
          se sm.intervals.toList, sm.getCov, se sm.mergeOverlaps.intervals.toList,
          (canonSE (se (s3.find probe.start probe.stop)), s3.count probe.start probe.stop)⟩
        if model != o then { kind := "diverge", nontrivial, classes, detail := s!"model iter {model.iter} cov {model.cov} merged {model.merged}" }
        else { kind := "ok", nontrivial, classes }
  | _, _ => { kind := "badcase", detail := "unparsable C18 case" }

/-! ## C19 -/
structure C19Obs where
  covA : Nat
  covB : Nat
  ab : Nat × Nat      -- a.union_and_intersect(b)
  ba : Nat × Nat
  unionAB : Nat
  interAB : Nat
deriving DecidableEq

def handleC19 (inp obs : List String) : Verdict :=
  -- large histories (> Large.threshold intervals): spec only, near-linear time (Driver/Large.lean)
  match Large.c19? false inp obs with
  | some v => v
  | none =>
  let parsed := (do let a ← pHist; let b ← pHist; pure (a, b)).run inp
  let pobs : Option (Option C19Obs × List String) := (do
    match (← peek?) with
    | some "panic" => pure none
    | _ =>
      let ca ← nat; let cb ← nat; let u1 ← nat; let i1 ← nat; let u2 ← nat; let i2 ← nat; let u ← nat; let i ← nat
      pure (some (C19Obs.mk ca cb (u1, i1) (u2, i2) u i))).run obs
  match parsed, pobs with
  | some (((ia, oa), (ib, ob)), _), some (o, _) =>
    let sa := suppliedOf ia oa
    let sb := suppliedOf ib ob
    let a := Lapper.run ia oa
    let b := Lapper.run ib ob
    let nontrivial := (touches sa || touches sb) && !sa.isEmpty && !sb.isEmpty
    let endsMerged (ops : List (Op Nat)) : Bool := (Lapper.run [] ops).merged   -- merged flag is a function of the op sequence only when non-empty
    let classes :=
      [s!"merged-{if a.merged then 1 else 0}{if b.merged then 1 else 0}"] ++
      (if a.cov.isSome || b.cov.isSome then ["cached-cov"] else []) ++
      (if sa.isEmpty || sb.isEmpty then ["empty-side"] else []) ++
      (if canonSE (se sa) == canonSE (se sb) && !sa.isEmpty then ["identical-sets"] else []) ++
      (if !sa.isEmpty && !sb.isEmpty && max (maxStop sa) (maxStop sb) ≤ specLimit && interCount sa sb == 0 then ["disjoint"] else []) ++
      (if (oa ++ ob).any (fun | .setCov => true | _ => false) && (oa.reverse.takeWhile (fun | .setCov => false | _ => true)).any (fun | .insert _ => true | .merge => true | _ => false) then ["set-cov-then-mutation"] else []) ++
      (if endsMerged oa then [] else []) ++
      (if topOfRange sa || topOfRange sb then ["top-of-range"] else []) ++
      (if a.getCov + b.getCov > 18446744073709551615 then ["cov-sum-above-u64max"] else [])
    match o with
    | none => { kind := "specfail", nontrivial, classes, detail := "implementation panicked" }
    | some o =>
      let small := max (maxStop sa) (maxStop sb) ≤ specLimit
      let specFail : Option String :=
        if !small then none else
        let u := unionCount sa sb
        let i := interCount sa sb
        if o.covA != coveredCount sa then some s!"cov(a) = {o.covA}, covered positions = {coveredCount sa}"
        else if o.covB != coveredCount sb then some s!"cov(b) = {o.covB}, covered positions = {coveredCount sb}"
        else if o.ab != (u, i) then some s!"a.union_and_intersect(b) = {o.ab}, |A∪B| = {u}, |A∩B| = {i}"
        else if o.ba != (u, i) then some s!"b.union_and_intersect(a) = {o.ba}, |A∪B| = {u}, |A∩B| = {i}"
        else if o.unionAB != u || o.interAB != i then some s!"union/intersect = {o.unionAB}/{o.interAB}, expected {u}/{i}"
        else none
      match specFail with
      | some d => { kind := "specfail", nontrivial, classes, detail := d ++ s!"; a = {showIvs sa}; b = {showIvs sb}" }
      | none =>
        let ab := a.unionAndIntersect b
        let model : C19Obs := ⟨a.getCov, b.getCov, ab, b.unionAndIntersect a, ab.1, ab.2⟩
        if model != o then { kind := "diverge", nontrivial, classes, detail := s!"model cov {model.covA}/{model.covB} ab {model.ab} ba {model.ba}" }
        else { kind := "ok", nontrivial, classes }
  | _, _ => { kind := "badcase", detail := "unparsable C19 case" }

/-! ## C20 -/
def handleC20 (inp obs : List String) : Verdict :=
  -- large histories (> Large.threshold intervals): spec only, near-linear time (Driver/Large.lean)
  match Large.c20? false inp obs with
  | some v => v
  | none =>
  let parsed := pHist.run inp
  let pobs : Option (Option (List (Iv Nat)) × List String) := (do
    match (← peek?) with
    | some "panic" => pure none
    | _ => let l ← many pIv; pure (some l)).run obs
  match parsed, pobs with
  | some ((init, ops), _), some (o, _) =>
    let s := Lapper.run init ops
    let stored := if hasMerge ops then s.intervals.toList else suppliedOf init ops
    let nontrivial := touches stored
    let classes := overlapClasses (canonIv stored) ++ (if hasMerge ops then ["after-merge"] else []) ++
      (if maxStop stored > specLimit then ["large-offset"] else []) ++
      (if topOfRange stored then ["top-of-range"] else [])
    match o with
    | none => { kind := "specfail", nontrivial, classes, detail := s!"depth() panicked on {showIvs stored}" }
    | some runs =>
      if !(isDepthRLEB stored runs) then
        { kind := "specfail", nontrivial, classes, detail := s!"depth() = {showIvs runs} is not the run-length encoding of the pointwise depth of {showIvs stored}" }
      else if s.depth != runs then { kind := "diverge", nontrivial, classes, detail := s!"model {showIvs s.depth}" }
      else { kind := "ok", nontrivial, classes }
  | _, _ => { kind := "badcase", detail := "unparsable C20 case" }

end BV.Driver
