import Driver.Proto
import BedVerif.Model.Lapper
import BedVerif.Lemmas.FastCover
import BedVerif.Lemmas.FastCount
import BedVerif.Lemmas.FastDepth
/-!
Near-linear-time judging of LARGE Lapper cases (C16–C20): histories with more than `threshold`
intervals. The executable model (`Lapper.run`) and the position-enumerating specs are quadratic or
worse; here only the *spec* is evaluated on the implementation's observable, with sort + sweep
algorithms (`List.mergeSort`, arrays, folds). Verdicts are `ok` / `specfail` (never `diverge`),
`nontrivial := true`, `classes := ["large"]`.

Each entry point `cNN? force inp obs` answers `none` when the case is not large (or its input does
not parse): the caller then runs the ordinary handler. Token formats are those of the ordinary
handlers (`pHist`, `pQ`, `pIv`, … in `Driver/Lapper.lean`), re-read here with tail-recursive
readers so that 10^5-element lists need no deep recursion.
-/
namespace BV.Driver.Large
open BV BV.Driver

def threshold : Nat := 3000

abbrev SE := Nat × Nat

/-! ## token readers (tail recursive) -/

def repA {α : Type} (p : Parser α) : Nat → Array α → List String → Option (Array α × List String)
  | 0, acc, s => some (acc, s)
  | n+1, acc, s =>
    match p s with
    | some (x, r) => repA p n (acc.push x) r
    | none => none

/-- length-prefixed list, as `many` -/
def manyA {α : Type} (p : Parser α) : Parser (Array α) := fun s =>
  match nat s with
  | some (n, r) => repA p n #[] r
  | none => none

def lpIv : Parser (Iv Nat) := do let s ← nat; let e ← nat; let v ← nat; pure ⟨s, e, v⟩
def lpSE : Parser SE := do let s ← nat; let e ← nat; pure (s, e)
def lpOp : Parser (Op Nat) := do
  let t ← tok
  if t == "i" then do let iv ← lpIv; pure (.insert iv)
  else if t == "m" then pure .merge
  else if t == "c" then pure .setCov
  else failure

structure Hist where
  init : Array (Iv Nat)
  ops : Array (Op Nat)

def lpHist : Parser Hist := do let init ← manyA lpIv; let ops ← manyA lpOp; pure ⟨init, ops⟩

/-- `some none` = the implementation panicked -/
def orPanic {α : Type} (p : Parser α) : Parser (Option α) := fun s =>
  match s with
  | "panic" :: _ => some (none, s)
  | _ => match p s with
    | some (x, r) => some (some x, r)
    | none => none

/-! ## histories -/

def insertsOf (ops : Array (Op Nat)) : Array (Iv Nat) :=
  ops.filterMap (fun o => match o with | .insert iv => some iv | _ => none)

/-- index of the last `.merge` -/
def lastMerge? (ops : Array (Op Nat)) : Option Nat :=
  (ops.foldl (fun (st : Nat × Option Nat) o =>
    (st.1 + 1, match o with | .merge => some st.1 | _ => st.2)) (0, none)).2

def Hist.supplied (h : Hist) : Array (Iv Nat) := h.init ++ insertsOf h.ops
def Hist.size (h : Hist) : Nat := h.init.size + (insertsOf h.ops).size
def Hist.hasMerge (h : Hist) : Bool := (lastMerge? h.ops).isSome
def isLarge (force : Bool) (n : Nat) : Bool := force || n > threshold

def seOf (a : Array (Iv Nat)) : Array SE := a.map (fun iv => (iv.start, iv.stop))

/-! ## sorting and sweeping -/

/-- (start, stop) lexicographic, the order of `Iv.le` / `seLe` -/
def seLe' (a b : SE) : Bool := a.1 < b.1 || (a.1 == b.1 && a.2 ≤ b.2)
def sortSE (a : Array SE) : Array SE := (a.toList.mergeSort seLe').toArray

/-- (start, stop, val) lexicographic, the order of `ivLe` -/
def ivLe' (a b : Iv Nat) : Bool :=
  a.start < b.start || (a.start == b.start && (a.stop < b.stop || (a.stop == b.stop && a.val ≤ b.val)))
def sortIv (a : Array (Iv Nat)) : Array (Iv Nat) := (a.toList.mergeSort ivLe').toArray

def sortN (a : Array Nat) : Array Nat := (a.toList.mergeSort (fun x y => decide (x ≤ y))).toArray

structure Sweep where
  out : Array SE
  cur : Option SE

/-- the stack loop of `merge_overlaps` (`mergeStep`) over a list sorted by (start, stop): a new block
starts exactly when `start > stop of the current block`; otherwise the block is extended -/
def sweep (sorted : Array SE) : Array SE :=
  let r := sorted.foldl (fun (st : Sweep) iv =>
    match st.cur with
    | none => { st with cur := some iv }
    | some (s, e) =>
      if e < iv.1 then { out := st.out.push (s, e), cur := some iv }
      else { st with cur := some (s, max e iv.2) }) ⟨#[], none⟩
  match r.cur with
  | none => r.out
  | some c => r.out.push c

/-- what `merge_overlaps` leaves (model semantics: zero-length intervals take part, an isolated one
stays as a zero-length block) -/
def mergeCover (a : Array SE) : Array SE := sweep (sortSE a)

/-- the canonical cover of the covered positions (spec semantics: only non-empty intervals cover
anything); book-ended intervals are fused -/
def canonCover (a : Array SE) : Array SE :=
  -- `fastCover` is PROVED equal to the position-enumerating `canonicalCover` of Spec/Lapper.lean
  -- (`fastCover_eq_canonicalCover`, Lemmas/FastCover.lean)
  (fastCover (a.toList.map (fun (x : SE) => (⟨x.1, x.2, ()⟩ : Iv Unit)))).toArray

def covLen (cover : Array SE) : Nat := cover.foldl (fun c x => c + (x.2 - x.1)) 0

/-- total length of the intersection of two canonical covers (two-pointer sweep) -/
def interLoop (a b : Array SE) : Nat → Nat → Nat → Nat → Nat
  | 0, _, _, acc => acc
  | fuel+1, i, j, acc =>
    if i < a.size && j < b.size then
      let x := a.getD i (0, 0)
      let y := b.getD j (0, 0)
      let acc := acc + (min x.2 y.2 - max x.1 y.1)
      if x.2 ≤ y.2 then interLoop a b fuel (i+1) j acc else interLoop a b fuel i (j+1) acc
    else acc
def interLen (a b : Array SE) : Nat := interLoop a b (a.size + b.size + 1) 0 0 0

/-- split of the supplied intervals at the last merge: (present at the last merge, inserted after it) -/
def Hist.split (h : Hist) : Option (Array (Iv Nat) × Array (Iv Nat)) :=
  match lastMerge? h.ops with
  | none => none
  | some k => some (h.init ++ insertsOf (h.ops.extract 0 k), insertsOf (h.ops.extract (k+1) h.ops.size))

/-- what the structure stores after the history, as the model has it (C16, C17, C20): without a merge
the supplied records; otherwise `merge_overlaps` of everything up to the last merge (earlier merges
change nothing: merging is idempotent and commutes with later additions) plus the later inserts.
Values are kept only when there was no merge. -/
def Hist.stored (h : Hist) : Array (Iv Nat) :=
  match h.split with
  | none => h.supplied
  | some (pre, post) =>
    (mergeCover (seOf pre)).map (fun x => (⟨x.1, x.2, 0⟩ : Iv Nat)) ++ post.map (fun iv => { iv with val := 0 })

/-- the content demanded by the specification alone (`specContent`, C18): a merge replaces the content
by the canonical cover of its positions -/
def Hist.content (h : Hist) : Array SE :=
  match h.split with
  | none => seOf h.supplied
  | some (pre, post) => canonCover (seOf pre) ++ seOf post

/-! ## verdicts -/
def vOk : Verdict := { kind := "ok", nontrivial := true, classes := ["large"] }
def vFail (d : String) : Verdict := { kind := "specfail", nontrivial := true, classes := ["large"], detail := d }
def vBad (d : String) : Verdict := { kind := "badcase", detail := d }

def showSEs (a : Array SE) : String :=
  " ".intercalate ((a.toList.take 6).map (fun x => s!"[{x.1},{x.2})")) ++ (if a.size > 6 then s!" … ({a.size} in all)" else "")
def showIvsA (a : Array (Iv Nat)) : String :=
  " ".intercalate ((a.toList.take 6).map (fun x => s!"[{x.start},{x.stop})#{x.val}")) ++ (if a.size > 6 then s!" … ({a.size} in all)" else "")

/-- first index at which two arrays differ (or the shorter length) -/
def firstDiff {α : Type} [BEq α] (a b : Array α) : Nat :=
  ((a.zip b).foldl (fun (st : Nat × Bool) xy => if st.2 then st else if xy.1 == xy.2 then (st.1 + 1, false) else (st.1, true)) (0, false)).1

def showDiffSE (what : String) (got want : Array SE) : String :=
  let i := firstDiff got want
  s!"{what}: {got.size} intervals, expected {want.size}; first difference at index {i}: got {showSEs (got.extract i (i+3))}, expected {showSEs (want.extract i (i+3))}"

def ovSE (x : SE) (qs qe : Nat) : Bool := x.1 < qe && x.2 > qs

/-! ## C16 -/
def c16? (force : Bool) (inp obs : List String) : Option Verdict :=
  match (do let h ← lpHist; let qs ← manyA lpSE; pure (h, qs)).run inp with
  | none => none
  | some ((h, qs), _) =>
    if !isLarge force h.size then none else
    match (orPanic (manyA lpSE)).run obs with
    | none => some (vBad "unparsable C16 case")
    | some (none, _) => some (vFail "implementation panicked")
    | some (some o, _) =>
      if o.size != qs.size then some (vBad "observable length") else
      let stored := h.stored
      let bad := (qs.zip o).find? (fun (q, (c, f)) =>
        let t := stored.foldl (fun n iv => if iv.ov q.1 q.2 then n + 1 else n) 0
        !(c == f && c == t))
      match bad with
      | some (q, (c, f)) =>
        let t := stored.foldl (fun n iv => if iv.ov q.1 q.2 then n + 1 else n) 0
        some (vFail s!"query [{q.1},{q.2}): count = {c}, find().count() = {f}, overlapping stored intervals = {t} (of {stored.size} stored)")
      | none => some vOk

/-! ## C17 -/
def c17? (force : Bool) (inp obs : List String) : Option Verdict :=
  match (do let h ← lpHist; let qs ← manyA lpSE; pure (h, qs)).run inp with
  | none => none
  | some ((h, qs), _) =>
    if !isLarge force h.size then none else
    match (orPanic (manyA (do let a ← manyA lpIv; let b ← manyA lpIv; pure (a, b)))).run obs with
    | none => some (vBad "unparsable C17 case")
    | some (none, _) => some (vFail "implementation panicked (seek or find)")
    | some (some o, _) =>
      if o.size != qs.size then some (vBad "observable length") else
      let merged := h.hasMerge
      -- after a merge intervals are compared by (start, stop) only
      let canon (l : Array (Iv Nat)) : Array (Iv Nat) :=
        sortIv (if merged then l.map (fun iv => { iv with val := 0 }) else l)
      let stored := h.stored
      let truthOf (q : SE) : Array (Iv Nat) := sortIv (stored.filter (·.ov q.1 q.2))
      let bad := (qs.zip o).find? (fun (q, (sk, fd)) =>
        let sk := canon sk
        !(sk == canon fd && sk == truthOf q))
      match bad with
      | some (q, (sk, fd)) =>
        let t := truthOf q
        let sk := canon sk
        let fd := canon fd
        let w := if sk != t then (firstDiff sk t, "seek") else (firstDiff fd t, "find")
        some (vFail s!"query [{q.1},{q.2}): seek returns {sk.size}, find {fd.size}, overlapping stored {t.size}; sorted, {w.2} differs at index {w.1}: seek {showIvsA (sk.extract w.1 (w.1+3))}; find {showIvsA (fd.extract w.1 (w.1+3))}; stored {showIvsA (t.extract w.1 (w.1+3))}")
      | none => some vOk

/-! ## C18 -/
structure C18L where
  iter : Array SE
  cov : Nat
  queries : Array (Array SE × Nat × Array SE)
  merged : Array SE
  covAfter : Nat
  mergedTwice : Array SE
  afterFind : Array SE
  afterCount : Nat

def lpC18 : Parser C18L := do
  let it ← manyA lpSE; let cov ← nat
  let qs ← manyA (do let f ← manyA lpSE; let c ← nat; let s ← manyA lpSE; pure (sortSE f, c, sortSE s))
  let m ← manyA lpSE; let ca ← nat; let m2 ← manyA lpSE
  let af ← manyA lpSE; let ac ← nat
  pure ⟨it, cov, qs, m, ca, m2, sortSE af, ac⟩

def c18? (force : Bool) (inp obs : List String) : Option Verdict :=
  match (do let h ← lpHist; let qs ← manyA lpSE; let probe ← lpIv; pure (h, qs, probe)).run inp with
  | none => none
  | some ((h, qs, probe), _) =>
    if !isLarge force h.size then none else
    match (orPanic lpC18).run obs with
    | none => some (vBad "unparsable C18 case")
    | some (none, _) => some (vFail "implementation panicked")
    | some (some o, _) =>
      if o.queries.size != qs.size then some (vBad "observable length") else
      let content := h.content
      let sorted := sortSE content
      let canon := canonCover content
      let cov := covLen canon
      if o.iter != sorted then some (vFail (showDiffSE "iter differs from the expected content" o.iter sorted))
      else if o.cov != cov then some (vFail s!"cov = {o.cov}, covered positions = {cov}")
      else if o.merged != canon then some (vFail (showDiffSE "after merge_overlaps iter differs from the canonical cover" o.merged canon))
      else if o.mergedTwice != o.merged then some (vFail (showDiffSE "merge_overlaps is not idempotent" o.mergedTwice o.merged))
      else if o.covAfter != cov then some (vFail s!"cov after merge = {o.covAfter}, covered positions = {cov}")
      else
        let truthOf (q : SE) : Array SE := sortSE (content.filter (fun x => ovSE x q.1 q.2))
        match (qs.zip o.queries).find? (fun (q, (f, c, sk)) =>
            let t := truthOf q
            !(f == t && c == t.size && sk == t)) with
        | some (q, (f, c, sk)) =>
          let t := truthOf q
          some (vFail s!"query [{q.1},{q.2}): find {f.size} count {c} seek {sk.size}, overlapping content {t.size}; find {showSEs f}; seek {showSEs sk}; content {showSEs t}")
        | none =>
          let t := sortSE ((canon.push (probe.start, probe.stop)).filter (fun x => ovSE x probe.start probe.stop))
          if !(o.afterFind == t && o.afterCount == t.size) then
            some (vFail s!"after inserting [{probe.start},{probe.stop}) into the merged set: find/count = {showSEs o.afterFind}/{o.afterCount}, expected {showSEs t}")
          else some vOk

/-! ## C19 -/
def c19? (force : Bool) (inp obs : List String) : Option Verdict :=
  match (do let a ← lpHist; let b ← lpHist; pure (a, b)).run inp with
  | none => none
  | some ((ha, hb), _) =>
    if !isLarge force (ha.size + hb.size) then none else
    let pO : Parser (Array Nat) := fun s => repA nat 8 #[] s
    match (orPanic pO).run obs with
    | none => some (vBad "unparsable C19 case")
    | some (none, _) => some (vFail "implementation panicked")
    | some (some o, _) =>
      let g (k : Nat) : Nat := o.getD k 0
      -- merges and set_cov do not change which positions are covered
      -- cardinalities through the PROVED fast forms: `fastCov = coveredCount`, `fastInter = interCount`
      -- (Lemmas/FastCount.lean: cover lengths and inclusion–exclusion over `fastCover`)
      let toIvs (x : Array SE) : List (Iv Unit) := x.toList.map (fun (y : SE) => (⟨y.1, y.2, ()⟩ : Iv Unit))
      let ia := toIvs (seOf ha.supplied)
      let ib := toIvs (seOf hb.supplied)
      let la := fastCov ia
      let lb := fastCov ib
      let i := fastInter ia ib
      let u := la + lb - i
      if g 0 != la then some (vFail s!"cov(a) = {g 0}, covered positions = {la}")
      else if g 1 != lb then some (vFail s!"cov(b) = {g 1}, covered positions = {lb}")
      else if (g 2, g 3) != (u, i) then some (vFail s!"a.union_and_intersect(b) = {(g 2, g 3)}, |A∪B| = {u}, |A∩B| = {i}")
      else if (g 4, g 5) != (u, i) then some (vFail s!"b.union_and_intersect(a) = {(g 4, g 5)}, |A∪B| = {u}, |A∩B| = {i}")
      else if g 6 != u || g 7 != i then some (vFail s!"union/intersect = {g 6}/{g 7}, expected {u}/{i}")
      else some vOk

/-! ## C20 -/
/-- append the stretch `[s, e)` of depth `d`, fusing it with the previous run when adjacent and equal -/
def pushRun (acc : Array (Iv Nat)) (s e d : Nat) : Array (Iv Nat) :=
  match acc.back? with
  | some r => if r.stop == s && r.val == d then acc.pop.push ⟨r.start, e, d⟩ else acc.push ⟨s, e, d⟩
  | none => acc.push ⟨s, e, d⟩

/-- sweep over the sorted starts and stops of non-empty intervals (one event per step; at equal
positions starts go first, so the depth never drops below zero) -/
def depthLoop (starts stops : Array Nat) : Nat → Nat → Nat → Nat → Nat → Array (Iv Nat) → Array (Iv Nat)
  | 0, _, _, _, _, acc => acc
  | fuel+1, i, j, prev, d, acc =>
    if j < stops.size then
      let sj := stops.getD j 0
      let startNext := i < starts.size && starts.getD i 0 ≤ sj
      let p := if startNext then starts.getD i 0 else sj
      let acc := if d > 0 && prev < p then pushRun acc prev p d else acc
      if startNext then depthLoop starts stops fuel (i+1) j p (d+1) acc
      else depthLoop starts stops fuel i (j+1) p (d-1) acc
    else acc

/-- maximal run-length encoding of the pointwise depth over the covered positions -/
def depthRLE (stored : Array SE) : Array (Iv Nat) :=
  let ne := stored.filter (fun x => x.1 < x.2)
  let starts := sortN (ne.map (·.1))
  let stops := sortN (ne.map (·.2))
  depthLoop starts stops (starts.size + stops.size + 1) 0 0 0 0 #[]

def c20? (force : Bool) (inp obs : List String) : Option Verdict :=
  match lpHist.run inp with
  | none => none
  | some (h, _) =>
    if !isLarge force h.size then none else
    match (orPanic (manyA lpIv)).run obs with
    | none => some (vBad "unparsable C20 case")
    | some (none, _) => some (vFail s!"depth() panicked ({h.size} intervals supplied)")
    | some (some runs, _) =>
      -- `fastDepth'` (three merge sorts and one linear sweep) is PROVED to be the unique run list satisfying the spec:
      -- `IsDepthRLE l runs ↔ runs = fastDepth' l` (Lemmas/FastDepth.lean)
      let want := (fastDepth' ((seOf h.stored).toList.map (fun (y : SE) => (⟨y.1, y.2, ()⟩ : Iv Unit)))).toArray
      if runs != want then
        let i := firstDiff runs want
        some (vFail s!"depth() gives {runs.size} runs, the run-length encoding of the pointwise depth has {want.size}; first difference at index {i}: depth() {showIvsA (runs.extract i (i+3))}, expected {showIvsA (want.extract i (i+3))}")
      else some vOk

end BV.Driver.Large
