import Driver.Proto
import BedVerif.Model.Lifecycle
/-!
Driver handler for C15 (no temporary files left behind).
-/
namespace BV.Driver
open BV

def handleC15 (inp obs : List String) : Verdict :=
  let parsed := (do
    let tmp ← nat; let n ← nat; let c ← nat; let comp ← opt nat
    let fail ← nat; let failAt ← nat; let consume ← nat; let order ← nat; let obsAt ← nat; let _builderOrder ← opt' nat; let _heavy ← opt' nat
    pure (tmp, n, c, comp, fail, failAt, consume, order, obsAt)).run inp
  let pobs := (do
    let t ← peek?
    if t == some "abort" || t == some "panic" then pure none else do
      let base ← nat; let newDirs ← nat; let newFiles ← nat
      let taken ← bool; let top ← nat; let inside ← nat; let fds ← nat
      let afterNew ← nat; let afterMissing ← nat; let otherNew ← nat; let result ← nat; let yielded ← nat; let otherAlive ← nat; let fdsOut ← opt' nat
      pure (some (base, newDirs, newFiles, taken, top, inside, fds, afterNew, afterMissing, otherNew, result, yielded, otherAlive, fdsOut.getD 0))).run obs
  match parsed, pobs with
  | some ((tmp, n, c, comp, fail, failAt, consume, order, obsAt), _), some (o, _) =>
    let cm := max c 1
    let chunksAtObs := obsAt / cm
    let classes :=
      [s!"tmpdir-{if tmp == 1 then "explicit" else "default"}", s!"drop-{if order == 0 then "iterator-first" else "sorter-first"}"] ++
      (match fail with | 0 => ["no-failure"] | 1 => ["panic-in-input"] | 2 => ["panic-in-comparator"] | 4 => ["build-fails"] | _ => ["sort-returns-error"]) ++
      (if fail == 0 then (if consume ≥ n then ["drained"] else if consume == 0 then ["never-consumed"] else ["dropped-after-k"]) else []) ++
      (if comp.isSome then ["compressed"] else []) ++
      (match ((do let _ ← rep tok 10; let _ ← (if comp.isSome then tok else pure ""); let h ← nat; pure h).run inp) with
        | some (h, _) => if h > 0 then ["heap-owning-records-MiB-runs"] else []
        | none => [])
    match o with
    | none => { kind := "specfail", nontrivial := true, classes, detail := "the lifetime script aborted or panicked outside sort_by" }
    | some (_base, newDirs, newFiles, taken, top, inside, fds, afterNew, afterMissing, otherNew, result, yielded, otherAlive, fdsOut) =>
      let nontrivial := taken && chunksAtObs ≥ 1
      -- the property
      let specFail : Option String :=
        if afterNew != 0 || afterMissing != 0 then some s!"after the sorter and the iterator were dropped the configured directory has {afterNew} new and {afterMissing} missing entries"
        else if otherNew != 0 then some s!"{otherNew} entries were created outside the configured directory and are still there after the drops"
        else if otherAlive != 0 then some s!"while the sorter was alive {otherAlive} entries existed outside the configured directory (under the other temporary directory)"
        else if fdsOut != 0 then some s!"while the sort was in progress {fdsOut} files created by it were open outside the configured directory"
        else if newDirs + newFiles > 1 then some s!"build() created {newDirs} directories and {newFiles} files under the configured directory"
        else if taken && top > 1 then some s!"during the sort {top} new entries exist directly under the configured directory"
        else none
      match specFail with
      | some d => { kind := "specfail", nontrivial := nontrivial || fail == 4, classes, detail := d }
      | none =>
        -- a build() that failed (or whose sorter was dropped unused): only the listings are compared
        if fail == 4 then { kind := "ok", nontrivial := result == 4, classes } else
        -- model: events up to the observation point, then to the end
        let during := FS.run ([.beginSort] ++ List.replicate chunksAtObs .createChunk)
        let total := (n + cm - 1) / cm
        -- `result`: 0 sort_by returned Ok, 1 returned Err, 2 panicked, 3 Ok but the comparator panicked while merging
        let sortEvs : List Ev := if result == 0 || result == 3
          then [.beginSort] ++ List.replicate total .createChunk ++ [.sortReturns]
          else [.beginSort] ++ List.replicate (min total (failAt / cm)) .createChunk ++ [.sortFails]
        let tail : List Ev := List.replicate yielded .yieldItem ++ (if order == 0 then [.dropIter, .dropSorter] else [.dropSorter, .dropIter])
        let fin := FS.run (sortEvs ++ tail)
        let mTop := if during.dirEntry then 1 else 0
        -- compared with the model at the granularity of the property: how many entries exist while the
        -- sorter is alive (at most the one the model predicts; creating it lazily is harmless), not what
        -- is inside the temporary directory nor how many descriptors a chunk holds
        if newDirs + newFiles > mTop then { kind := "diverge", nontrivial, classes, detail := s!"model: at most {mTop} entry after build(); implementation {newDirs} dirs {newFiles} files" }
        else if taken && top > mTop then
          { kind := "diverge", nontrivial, classes, detail := s!"during the sort: model {mTop} entry; implementation {top} ({inside} inside, {fds} chunk files open)" }
        else if fin.dirEntry || fin.openFiles != 0 then { kind := "diverge", nontrivial, classes, detail := "model predicts leftovers (script not closed)" }
        else if fail == 0 && result != 0 then { kind := "diverge", nontrivial, classes, detail := s!"sort_by result {result} without an injected failure" }
        else { kind := "ok", nontrivial, classes }
  | _, _ => { kind := "badcase", detail := "unparsable C15 case" }

end BV.Driver
