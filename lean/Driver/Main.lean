import Driver.Lapper
import Driver.Rec
import Driver.Lapper2
import Driver.Coverage
import Driver.Text
import Driver.Sort
import Driver.Store
import Driver.Lifecycle
/-!
`bvdriver FILE` (or stdin): one case per line, answers one verdict line per case.
-/
open BV BV.Driver

def handle (line : String) : String :=
  let ts := (line.trimAscii.toString.splitOn " ").filter (· != "")
  match ts with
  | prop :: id :: rest =>
    let (inp, obs) := splitBar rest
    let v : Verdict :=
      match prop with
      | "C02" => handleC02 inp obs
      | "C16" => handleC16 inp obs
      | "C17" => handleC17 inp obs
      | "C11" => handleC11 inp obs
      | "C18" => handleC18 inp obs
      | "C19" => handleC19 inp obs
      | "C20" => handleC20 inp obs
      | "C05" => handleC05 inp obs
      | "C06" => handleC06 inp obs
      | "C03" => handleC03 inp obs
      | "C12" => handleC12 inp obs
      | "C04" => handleC04 inp obs
      | "C10" => handleC10 inp obs
      | "C01" => handleC01 inp obs
      | "C09" => handleC09 inp obs
      | "C15" => handleC15 inp obs
      | "C13" => handleC13 inp obs
      | "C14" => handleC14 inp obs
      | "C07" => handleC07 inp obs
      | "C08" => handleC08 inp obs
      | _ => { kind := "badcase", detail := s!"unknown property {prop}" }
    v.render id
  | _ => "? badcase 0 - | empty line"

partial def loop (h : IO.FS.Stream) (out : IO.FS.Stream) : IO Unit := do
  let line ← h.getLine
  if line.isEmpty then return ()
  if line.trimAscii.toString.isEmpty then loop h out else
  out.putStrLn (handle line)
  loop h out

def main (args : List String) : IO Unit := do
  let out ← IO.getStdout
  match args with
  | [path] =>
    let hd ← IO.FS.Handle.mk path .read
    loop (IO.FS.Stream.ofHandle hd) out
  | _ => loop (← IO.getStdin) out
