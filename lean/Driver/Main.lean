import Driver.Lapper
import Driver.Rec
import Driver.Lapper2
import Driver.Coverage
import Driver.Text
import Driver.Sort
import Driver.Store
import Driver.Lifecycle
/-!
`bvdriver FILE` (or stdin): one case per line, answers one verdict line per case.
-/
open BV BV.Driver

/-- optional trailing token `~f<n>` of the input: which `BEDLike` implementor (and which strand / name /
score variant) carried the coordinates in the implementation run. The properties do not depend on it,
so the handlers never see it; it only contributes boundary classes. -/
def splitFlavour (inp : List String) : List String × Option Nat :=
  match inp.getLast? with
  | some t => if t.startsWith "~f" then (inp.dropLast, (t.drop 2).toString.toNat?) else (inp, none)
  | none => (inp, none)

def handle (line : String) : String :=
  let ts := (line.trimAscii.toString.splitOn " ").filter (· != "")
  match ts with
  | prop :: id :: rest =>
    let (inp0, obs) := splitBar rest
    let (inp, fl) := splitFlavour inp0
    let v : Verdict :=
      match prop with
      | "C02" => handleC02 inp obs
      | "C16" => handleC16 inp obs
      | "C17" => handleC17 inp obs
      | "C11" => handleC11 inp obs
      | "C18" => handleC18 inp obs
      | "C19" => handleC19 inp obs
      | "C20" => handleC20 inp obs
      | "C05" => handleC05 inp obs
      | "C06" => handleC06 inp obs
      | "C03" => handleC03 inp obs
      | "C12" => handleC12 inp obs
      | "C04" => handleC04 inp obs
      | "C10" => handleC10 inp obs
      | "C01" => handleC01 inp obs
      | "C09" => (match inp with
          | "sorter" :: rest => handleC01 rest obs     -- a sort through the real chunk files, judged as a C01 case
          | _ => handleC09 inp obs)
      | "C15" => handleC15 inp obs
      | "C13" => handleC13 inp obs
      | "C14" => handleC14 inp obs
      | "C07" => handleC07 inp obs
      | "C08" => handleC08 inp obs
      -- the large-history path of Driver/Large.lean forced on a case of any size (cross-validation)
      | "C16L" => (Large.c16? true inp obs).getD { kind := "badcase", detail := "unparsable C16 case" }
      | "C17L" => (Large.c17? true inp obs).getD { kind := "badcase", detail := "unparsable C17 case" }
      | "C18L" => (Large.c18? true inp obs).getD { kind := "badcase", detail := "unparsable C18 case" }
      | "C19L" => (Large.c19? true inp obs).getD { kind := "badcase", detail := "unparsable C19 case" }
      | "C20L" => (Large.c20? true inp obs).getD { kind := "badcase", detail := "unparsable C20 case" }
      | _ => { kind := "badcase", detail := s!"unknown property {prop}" }
    let v := match fl with
      | some f => { v with classes := v.classes ++ flavourClasses f }
      | none => v
    v.render id
  | _ => "? badcase 0 - | empty line"

partial def loop (h : IO.FS.Stream) (out : IO.FS.Stream) : IO Unit := do
  let line ← h.getLine
  if line.isEmpty then return ()
  if line.trimAscii.toString.isEmpty then loop h out else
  out.putStrLn (handle line)
  loop h out

def main (args : List String) : IO Unit := do
  let out ← IO.getStdout
  match args with
  | [path] =>
    let hd ← IO.FS.Handle.mk path .read
    loop (IO.FS.Stream.ofHandle hd) out
  | _ => loop (← IO.getStdin) out
