import BedVerif.Basic
/-!
Line protocol of the driver: space-separated tokens; integers in decimal; byte strings
hex-encoded (`-` = empty); lists length-prefixed; `|` separates input from the
implementation's observable.
-/
namespace BV.Driver
open BV

abbrev Parser := StateT (List String) Option

def tok : Parser String := fun s => match s with | [] => none | t :: r => some (t, r)
def peek? : Parser (Option String) := fun s => some (s.head?, s)
def nat : Parser Nat := do let t ← tok; match t.toNat? with | some n => pure n | none => failure
def int : Parser Int := do let t ← tok; match t.toInt? with | some n => pure n | none => failure
def bool : Parser Bool := do let n ← nat; pure (n != 0)
def expect (s : String) : Parser Unit := do let t ← tok; if t == s then pure () else failure

def hexVal (c : Char) : Option Nat :=
  if '0' ≤ c ∧ c ≤ '9' then some (c.toNat - '0'.toNat)
  else if 'a' ≤ c ∧ c ≤ 'f' then some (c.toNat - 'a'.toNat + 10)
  else none

def hexDecode : List Char → Option Bytes
  | [] => some []
  | a :: b :: rest => do
    let x ← hexVal a; let y ← hexVal b; let r ← hexDecode rest
    pure ((x * 16 + y).toUInt8 :: r)
  | _ => none

def bytes : Parser Bytes := do
  let t ← tok
  if t == "-" then pure [] else
  match hexDecode t.toList with | some b => pure b | none => failure

def rep {α : Type} (p : Parser α) : Nat → Parser (List α)
  | 0 => pure []
  | n+1 => do let x ← p; let xs ← rep p n; pure (x :: xs)
def many {α : Type} (p : Parser α) : Parser (List α) := do let n ← nat; rep p n
def opt {α : Type} (p : Parser α) : Parser (Option α) := do
  let b ← nat; if b == 0 then pure none else do let x ← p; pure (some x)
/-- an optional trailing item -/
def opt' {α : Type} (p : Parser α) : Parser (Option α) := fun s => match p s with | some (a, r) => some (some a, r) | none => some (none, s)
def atEnd : Parser Bool := fun s => some (s.isEmpty, s)

def hexDigit (n : Nat) : Char := if n < 10 then Char.ofNat (48 + n) else Char.ofNat (87 + n)
def hexEncode (b : Bytes) : String :=
  if b.isEmpty then "-" else String.ofList (b.flatMap (fun c => [hexDigit (c.toNat / 16), hexDigit (c.toNat % 16)]))

/-- split a case line into (input tokens, observable tokens) at the first `|` -/
def splitBar (ts : List String) : List String × List String :=
  let a := ts.takeWhile (· != "|")
  (a, (ts.drop (a.length + 1)))

/-- verdict of one case -/
structure Verdict where
  kind : String            -- ok | diverge | specfail | badcase
  nontrivial : Bool := false
  classes : List String := []
  detail : String := ""

def Verdict.render (id : String) (v : Verdict) : String :=
  s!"{id} {v.kind} {if v.nontrivial then 1 else 0} {if v.classes.isEmpty then "-" else ",".intercalate v.classes} | {(v.detail.replace "\n" " ").replace "\r" " "}"

/-- boundary classes of a record flavour (harness `with_bedlike!`: kind = f % 10, variant = f / 10) -/
def flavourClasses (f : Nat) : List String :=
  (if f % 10 != 0 then ["record-type-not-GenomicRange"] else []) ++
  (if f % 10 != 0 && f % 10 < 8 && (f / 10) % 3 == 1 then ["strand-forward"] else []) ++
  (if f % 10 != 0 && f % 10 < 8 && (f / 10) % 3 == 2 then ["strand-reverse"] else [])

/-- lexicographic order on lists of naturals, used to canonicalise multisets -/
def natListLe : List Nat → List Nat → Bool
  | [], _ => true
  | _ :: _, [] => false
  | a :: as, b :: bs => if a < b then true else if a > b then false else natListLe as bs

end BV.Driver
