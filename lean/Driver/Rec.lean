import Driver.Lapper
import BedVerif.Spec.Rec
import BedVerif.Lemmas.FastBedgraph
/-!
Driver handlers for C07, C08, C13, C14.
-/
namespace BV.Driver
open BV

def showRec (r : Rec) : String := s!"{hexEncode r.chrom}:{r.start}-{r.stop}"
def showRecs (l : List Rec) : String := " ".intercalate (l.map showRec)
def pBG : Parser BG := do let c ← bytes; let s ← nat; let e ← nat; let v ← int; pure ⟨c, s, e, v⟩
def showBGs (l : List BG) : String := " ".intercalate (l.map (fun b => s!"{hexEncode b.chrom}:{b.start}-{b.stop}={b.value}"))
def pOrd : Parser Ordering := do
  let t ← tok
  if t == "lt" then pure .lt else if t == "eq" then pure .eq else if t == "gt" then pure .gt else failure

/-! ## C13 -/
structure PairObs where
  ov : Option Rec
  nov : Nat
  cmp : Ordering
  grCmp : Ordering       -- derived `Ord for GenomicRange` on `to_genomic_range()`
deriving DecidableEq

structure C13Obs where
  lens : List Nat
  grs : List Rec                       -- to_genomic_range of each record
  pairs : List PairObs                 -- all ordered pairs (i, j), row-major
deriving DecidableEq

def handleC13 (inp obs : List String) : Verdict :=
  let tys := (do let ty ← nat; let ty2 ← nat; pure (ty, ty2)).run inp
  let parsed := (do let _ty ← nat; let _ty2 ← nat; let xs ← many pRec; pure xs).run inp
  let pobs : Option (Option C13Obs × List String) := (do
    match (← peek?) with
    | some "panic" => pure none
    | _ =>
      let lens ← many nat
      let grs ← many pRec
      let pairs ← many (do let o ← opt pRec; let n ← nat; let c ← pOrd; let g ← pOrd; pure (PairObs.mk o n c g))
      pure (some (C13Obs.mk lens grs pairs))).run obs
  match parsed, pobs with
  | some (xs, _), some (o, _) =>
    let idx := List.range xs.length
    let pairsIn := idx.flatMap (fun i => idx.map (fun j => (xs.getD i default, xs.getD j default)))
    let touching := pairsIn.any (fun (a, b) => a != b && a.chrom == b.chrom && max a.start b.start ≤ min a.stop b.stop)
    let nontrivial := xs.length ≥ 2 && touching
    let classes :=
      (if pairsIn.any (fun (a, b) => a.chrom == b.chrom && a.stop == b.start && a.start < a.stop && b.start < b.stop) then ["adjacent"] else []) ++
      (if pairsIn.any (fun (a, b) => a.chrom == b.chrom && a.start < b.start && a.stop == b.start + 1 && b.stop > b.start) then ["one-base-overlap"] else []) ++
      (if pairsIn.any (fun (a, b) => a.chrom == b.chrom && a.start < b.start && b.stop < a.stop) then ["nested"] else []) ++
      (if xs.length != xs.eraseDups.length then ["identical"] else []) ++
      (if xs.any (fun a => a.start == a.stop) then ["zero-length"] else []) ++
      (if xs.any (fun a => a.start > a.stop) then ["end-before-start"] else []) ++
      (if pairsIn.any (fun (a, b) => a.chrom != b.chrom) then ["different-chromosome"] else []) ++
      (if pairsIn.any (fun (a, b) => a.chrom != b.chrom && (a.chrom.isPrefixOf b.chrom)) then ["prefix-chromosome-names"] else []) ++
      (if xs.any (fun a => a.stop == U64MAX) then ["u64max"] else []) ++
      (if pairsIn.any (fun (a, b) => a.chrom == b.chrom && (a.stop - a.start) + (b.stop - b.start) > U64MAX) then ["length-sum-above-u64max"] else []) ++
      (match tys with | some ((a, b), _) => (flavourClasses a ++ flavourClasses b).eraseDups | none => [])
    match o with
    | none => { kind := "specfail", nontrivial, classes, detail := "implementation panicked" }
    | some o =>
      if o.pairs.length != pairsIn.length || o.lens.length != xs.length then { kind := "badcase", detail := "observable shape" } else
      -- the spec, on the implementation's observable
      let lenOk := (xs.zip o.lens).all (fun (a, l) => l == a.stop - a.start)
      let grOk := o.grs == xs
      let pairOk := (pairsIn.zip o.pairs).all (fun ((a, b), po) =>
        overlapSpecB a b po.ov && po.nov == sharedCount a b && po.cmp == po.grCmp)
      -- symmetry, reflexivity, antisymmetry, transitivity of compare on the observed table
      let n := xs.length
      let cmpAt (i j : Nat) : Ordering := ((o.pairs.getD (i * n + j) ⟨none, 0, .eq, .eq⟩).cmp)
      let ordOk := idx.all (fun i => cmpAt i i == .eq) &&
        idx.all (fun i => idx.all (fun j => cmpAt i j == (cmpAt j i).swap &&
          ((cmpAt i j == .eq) == (xs.getD i default == xs.getD j default)))) &&
        idx.all (fun i => idx.all (fun j => idx.all (fun k =>
          !(cmpAt i j != .gt && cmpAt j k != .gt) || cmpAt i k != .gt)))
      let symOk := idx.all (fun i => idx.all (fun j =>
        let p := o.pairs.getD (i * n + j) ⟨none, 0, .eq, .eq⟩
        let q := o.pairs.getD (j * n + i) ⟨none, 0, .eq, .eq⟩
        p.ov == q.ov && p.nov == q.nov))
      if !(lenOk && grOk && pairOk && ordOk && symOk) then
        { kind := "specfail", nontrivial, classes,
          detail := s!"records {showRecs xs}: len ok {lenOk}, to_genomic_range ok {grOk}, overlap/n_overlap/Ord-consistency ok {pairOk}, total-order laws ok {ordOk}, symmetry ok {symOk}" }
      else
        let model : C13Obs := ⟨xs.map Rec.blen, xs, pairsIn.map (fun (a, b) =>
          ⟨Rec.overlap a b, Rec.nOverlap a b, Rec.compare a b, Rec.compare a b⟩)⟩
        if model != o then
          let bad := (pairsIn.zip (o.pairs.zip model.pairs)).find? (fun (_, (x, y)) => x != y)
          { kind := "diverge", nontrivial, classes,
            detail := match bad with
              | some ((a, b), _) => s!"pair {showRec a} / {showRec b}: model compare {repr (Rec.compare a b)}, overlap {(Rec.overlap a b).map showRec}"
              | none => "lens/grs differ" }
        else { kind := "ok", nontrivial, classes }
  | _, _ => { kind := "badcase", detail := "unparsable C13 case" }

/-! ## C14 -/
def pOutRecs : Parser (Out (List Rec)) := do
  match (← peek?) with
  | some "panic" => let _ ← tok; pure .panic
  | _ => let l ← many pRec; pure (.ok l)

def handleC14 (inp obs : List String) : Verdict :=
  let parsed := (do let r ← pRec; let bin ← nat; pure (r, bin)).run inp
  let pobs := (do
    let a ← pOutRecs; let b ← pOutRecs; let c ← pOutRecs; let d ← pOutRecs
    pure (a, b, c, d)).run obs
  match parsed, pobs with
  | some ((r, bin), _), some ((sp, rsp, bc, sbc), _) =>
    let len := r.stop - r.start
    let nontrivial := (len + bin - 1) / bin ≥ 2 || bin > len
    let classes :=
      (if bin == 1 then ["bin-1"] else []) ++
      (if len > 0 && len % bin == 0 && bin < len then ["bin-divides"] else []) ++
      (if len % bin != 0 && bin < len then ["bin-not-divides"] else []) ++
      (if bin == len && len > 0 then ["bin-eq-len"] else []) ++
      (if bin > len then ["bin-gt-len"] else []) ++
      (if bin == U64MAX then ["bin-u64max"] else []) ++
      (if len == 1 then ["length-1"] else []) ++
      (if len == 0 then ["zero-length"] else []) ++
      (if r.start == 0 then ["start-0"] else []) ++
      (if r.stop + bin > U64MAX then ["near-u64max"] else [])
    let chk (name : String) (o : Out (List Rec)) (f : List Rec → Bool) : Option String :=
      match o with
      | .panic => some s!"{name} panicked"
      | .ok ps => if f ps then none else some s!"{name} = {showRecs ps} is not the tiling of {showRec r} by {bin}"
    let fails := [chk "split_by_len" sp (tilesB r bin), chk "rsplit_by_len" rsp (rtilesB r bin),
                  chk "BinnedCoverage::regions" bc (tilesB r bin), chk "SparseBinnedCoverage::regions" sbc (tilesB r bin)].filterMap id
    if !fails.isEmpty then { kind := "specfail", nontrivial, classes, detail := "; ".intercalate fails }
    else if sp != splitByLen r bin || rsp != rsplitByLen r bin || bc != splitByLen r bin || sbc != splitByLen r bin then
      { kind := "diverge", nontrivial, classes, detail := "model tiling differs" }
    else { kind := "ok", nontrivial, classes }
  | _, _ => { kind := "badcase", detail := "unparsable C14 case" }

/-! ## C07 -/
def handleC07 (inp obs : List String) : Verdict :=
  let parsed := (many pRec).run inp
  let pobs : Option (Option (List (List Rec) × List Rec) × List String) := (do
    match (← peek?) with
    | some "panic" => pure none
    | _ => let gs ← many (many pRec); let out ← many pRec; pure (some (gs, out))).run obs
  match parsed, pobs with
  | some (xs, _), some (o, _) =>
    -- LARGE inputs (more than 3000 records): the class histogram and the Boolean checkers are quadratic in the size of a group.
    -- The grouping the spec demands is unique (`C07_groupsSpec_iff_eq_model`: a grouping satisfies the clauses of C07 exactly
    -- when it is the model's), and the model's loop is linear: the output is compared with it
    if xs.length > 3000 then
      match o with
      | none => { kind := "specfail", nontrivial := true, classes := ["large"], detail := "implementation panicked on sorted input" }
      | some (gs, out) =>
        if groups xs != .ok gs then
          let mg := match groups xs with | .ok g => g | .panic => []
          { kind := "specfail", nontrivial := true, classes := ["large"], detail := s!"{xs.length} records: {gs.length} groups of sizes {(gs.map (·.length)).take 8} …, the maximal chained runs are {mg.length} groups of sizes {(mg.map (·.length)).take 8} …" }
        else if mergeSortedBed xs != .ok out then
          { kind := "specfail", nontrivial := true, classes := ["large"], detail := s!"{xs.length} records: merge_sorted_bed gives {out.length} ranges {showRecs (out.take 3)} …, the groups' ranges are {showRecs ((match mergeSortedBed xs with | .ok l => l | .panic => []).take 3)} …" }
        else { kind := "ok", nontrivial := true, classes := ["large"] }
    else
    let adj := xs.zip (xs.drop 1)
    let mgs := match groups xs with | .ok g => g | .panic => []
    let nontrivial := xs.length ≥ 2 && mgs.length ≥ 2 && mgs.any (fun g => g.length ≥ 2)
    let classes :=
      (if adj.any (fun (a, b) => a.chrom != b.chrom && b.start ≤ a.stop) then ["chrom-change-overlapping-coords"] else []) ++
      (if (mgs.any (fun g => (List.range g.length).any (fun i => i > 0 && (g.getD i default).start == listMax ((g.take i).map (·.stop))))) then ["book-ended"] else []) ++
      (if adj.any (fun (a, b) => a.chrom == b.chrom && b.start == a.stop + 1) then ["gap-of-one"] else []) ++
      (if adj.any (fun (a, b) => a.chrom == b.chrom && b.stop < a.stop) then ["nested-smaller-end"] else []) ++
      (if adj.any (fun (a, b) => a == b) then ["duplicates"] else []) ++
      (if xs.any (fun a => a.start == a.stop) then ["zero-length"] else []) ++
      (if xs.isEmpty then ["empty"] else []) ++ (if xs.length == 1 then ["single"] else [])
    match o with
    | none => { kind := "specfail", nontrivial, classes, detail := "implementation panicked on sorted input" }
    | some (gs, out) =>
      if !(goodGroupsB xs gs) then
        { kind := "specfail", nontrivial, classes, detail := s!"groups {gs.map showRecs} are not the maximal chained runs of {showRecs xs}" }
      else if !(mergedOkB xs out gs) then
        { kind := "specfail", nontrivial, classes, detail := s!"merge_sorted_bed = {showRecs out} for {showRecs xs}" }
      else if groups xs != .ok gs || mergeSortedBed xs != .ok out then
        { kind := "diverge", nontrivial, classes, detail := s!"model groups {mgs.map showRecs}" }
      else { kind := "ok", nontrivial, classes }
  | _, _ => { kind := "badcase", detail := "unparsable C07 case" }

/-! ## C08 -/
def handleC08 (inp obs : List String) : Verdict :=
  let parsed := (many pBG).run inp
  let pobs : Option (Option (List BG) × List String) := (do
    match (← peek?) with
    | some "panic" => pure none
    | _ => let out ← many pBG; pure (some out)).run obs
  match parsed, pobs with
  | some (xs, _), some (o, _) =>
    -- LARGE inputs (more than 3000 records): the model and the Boolean checker are quadratic. The expected output is
    -- `fastBedgraph'` (per chromosome: four merge sorts and one linear sweep), PROVED to be the unique list satisfying the six
    -- clauses of the spec: `BedgraphSpec xs out ↔ out = fastBedgraph' xs` (Lemmas/FastBedgraph.lean)
    if xs.length > 3000 then
      match o with
      | none => { kind := "specfail", nontrivial := true, classes := ["large"], detail := "implementation panicked on sorted non-empty input" }
      | some out =>
        let want := fastBedgraph' xs
        if out == want then { kind := "ok", nontrivial := true, classes := ["large"] }
        else
          let k := ((List.range (min out.length want.length)).find? (fun i => out.toArray.getD i default != want.toArray.getD i default)).getD (min out.length want.length)
          { kind := "specfail", nontrivial := true, classes := ["large"],
            detail := s!"{xs.length} records in, {out.length} out, the run-length encoded pointwise sum has {want.length}; first difference at index {k}: got {showBGs ((out.drop k).take 2)}, expected {showBGs ((want.drop k).take 2)}" }
    else
    let mgs := match groupsOf BG.toRec xs with | .ok g => g | .panic => []
    let nontrivial := xs.length ≥ 2 && mgs.length ≥ 2 && mgs.any (fun g => g.length ≥ 2)
    let classes :=
      (if mgs.any (fun g => g.any (fun a => g.any (fun b => a.start == b.start && a.value > 0 && b.value < 0))) then ["mixed-sign-same-start"] else []) ++
      (if (recPoints (xs.map BG.toRec)).any (fun cp => coveredByB (xs.map BG.toRec) cp.1 cp.2 && sumAtB xs cp.1 cp.2 == 0 && (xs.any (fun b => b.toRec.cov cp.1 cp.2 && b.value != 0))) then ["cancel-to-zero"] else []) ++
      (if xs.any (fun b => b.value == 0) then ["zero-value"] else []) ++
      (if mgs.any (fun g => g.any (fun a => (g.filter (fun b => b.start == a.start)).length ≥ 3 || (g.filter (fun b => b.stop == a.stop)).length ≥ 3)) then ["many-at-one-position"] else []) ++
      (if (xs.zip (xs.drop 1)).any (fun (a, b) => a.chrom == b.chrom && a.stop == b.start && a.value == b.value) then ["book-ended-equal"] else []) ++
      (if (xs.zip (xs.drop 1)).any (fun (a, b) => a.chrom == b.chrom && a.stop == b.start && a.value != b.value) then ["book-ended-different"] else []) ++
      (if (xs.map (·.chrom)).eraseDups.length ≥ 2 then ["several-chromosomes"] else []) ++
      (if (xs.zip (xs.drop 1)).any (fun (a, b) => a == b) then ["identical"] else [])
    match o with
    | none => { kind := "specfail", nontrivial, classes, detail := "implementation panicked on sorted non-empty input" }
    | some out =>
      if !(bedgraphOkB xs out) then
        { kind := "specfail", nontrivial, classes, detail := s!"merge_sorted_bedgraph({showBGs xs}) = {showBGs out}: not the run-length encoded pointwise sum" }
      else if mergeSortedBedgraph xs != .ok out then
        { kind := "diverge", nontrivial, classes, detail := s!"model {match mergeSortedBedgraph xs with | .ok l => showBGs l | .panic => "panic"}" }
      else { kind := "ok", nontrivial, classes }
  | _, _ => { kind := "badcase", detail := "unparsable C08 case" }

end BV.Driver
