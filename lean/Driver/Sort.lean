import Driver.Proto
import BedVerif.Model.Sort
/-!
Driver handlers for C10 (k-way merge) and C01 (external sort).
Items are `(key, digest)`: the comparator looks at the key only (lexicographic, optionally
reversed), the digest identifies the full record (field-for-field serialisation).
-/
namespace BV.Driver
open BV

abbrev SItem := List Nat × Bytes

def cmpKey : List Nat → List Nat → Ordering
  | [], [] => .eq
  | [], _ :: _ => .lt
  | _ :: _, [] => .gt
  | a :: as, b :: bs => if a < b then .lt else if a > b then .gt else cmpKey as bs
def cmpItem (rev : Bool) (a b : SItem) : Ordering := if rev then cmpKey b.1 a.1 else cmpKey a.1 b.1

def pSItem : Parser SItem := do let k ← many nat; let d ← bytes; pure (k, d)
def pChunkItem : Parser (Item Nat SItem) := do
  let t ← tok
  if t == "o" then do let x ← pSItem; pure (.ok x) else if t == "e" then do let c ← nat; pure (.err c) else failure

def bytesLe (a b : Bytes) : Bool := cmpBytes a b != .gt
def itemTotalLe (a b : SItem) : Bool := match cmpKey a.1 b.1 with | .lt => true | .gt => false | .eq => bytesLe a.2 b.2
/-- multiset canonical form -/
def canonMulti (l : List SItem) : List SItem := l.mergeSort itemTotalLe
/-- tie-class canonical form of a list that is sorted for `cmp`: sort every maximal run of
`cmp`-equal items by digest -/
def canonTiesAux (rev : Bool) : Nat → List SItem → List SItem
  | 0, l => l
  | _, [] => []
  | fuel+1, x :: xs =>
    let run := xs.takeWhile (fun y => cmpItem rev x y == .eq)
    let rest := xs.dropWhile (fun y => cmpItem rev x y == .eq)
    (x :: run).mergeSort (fun a b => bytesLe a.2 b.2) ++ canonTiesAux rev fuel rest
def canonTies (rev : Bool) (l : List SItem) : List SItem := canonTiesAux rev (l.length + 1) l
def sortedFor (rev : Bool) (l : List SItem) : Bool := (l.zip (l.drop 1)).all (fun ab => cmpItem rev ab.1 ab.2 != .gt)
def showItems (l : List SItem) : String := " ".intercalate (l.map (fun x => s!"{x.1}#{hexEncode x.2}"))
def firstErr : List (Item Nat SItem) → Option Nat
  | [] => none
  | .ok _ :: xs => firstErr xs
  | .err e :: _ => some e

/-- multiset inclusion of two lists sorted by `itemTotalLe` -/
def subMulti : List SItem → List SItem → Bool
  | [], _ => true
  | _ :: _, [] => false
  | a :: as, b :: bs => if a == b then subMulti as bs else if itemTotalLe b a then subMulti (a :: as) bs else false

/-! ## C10 -/
def handleC10 (inp obs : List String) : Verdict :=
  let parsed := (do let rev ← bool; let n ← nat; let chunks ← many (many pChunkItem); pure (rev, n, chunks)).run inp
  let pobs : Option (Option (List (Item Nat SItem) × List Bool × Nat) × List String) := (do
    match (← peek?) with
    | some "panic" => pure none
    | _ =>
      let outs ← many pChunkItem
      let extra ← many bool          -- was each further next() `Some`?
      let len ← nat
      pure (some (outs, extra, len))).run obs
  match parsed, pobs with
  | some ((rev, n, chunks), _), some (o, _) =>
    let cmp := cmpItem rev
    let allOk := okItems chunks.flatten
    let anyErr := chunks.any hasErr
    let nonEmpty := chunks.filter (fun c => !c.isEmpty)
    let nontrivial := nonEmpty.length ≥ 2
    let primingErr := chunks.any (fun c => match c with | .err _ :: _ => true | _ => false)
    -- thousands of chunk streams (an index type narrower than usize wraps there): the quadratic class
    -- predicates and the list-based model are skipped, the specification is evaluated as always
    let big := chunks.length > 1000
    let classes := if big then
      (if chunks.length > 65536 then ["more-than-65536-chunks"] else ["more-than-1000-chunks"]) ++ (if anyErr then [] else ["no-error"]) else
      (if chunks.length > 256 then ["more-than-256-chunks"] else []) ++
      (if chunks.isEmpty then ["zero-chunks"] else []) ++
      (if !chunks.isEmpty && nonEmpty.isEmpty then ["all-empty"] else []) ++
      (if chunks.length == 1 then ["one-chunk"] else []) ++
      (if chunks.any (fun c => (okItems c).length ≥ 2 && ((okItems c).zip ((okItems c).drop 1)).any (fun ab => cmp ab.1 ab.2 == .eq)) then ["ties-within-chunk"] else []) ++
      (if (List.range chunks.length).any (fun i => (List.range chunks.length).any (fun j => i < j && (okItems (chunks.getD i [])).any (fun a => (okItems (chunks.getD j [])).any (fun b => cmp a b == .eq)))) then ["ties-across-chunks"] else []) ++
      (if rev then ["reversed-comparator"] else []) ++
      (if primingErr then ["error-at-first-position"] else []) ++
      (if chunks.any (fun c => match c.getLast? with | some (.err _) => c.length ≥ 2 | _ => false) then ["error-at-last-position"] else []) ++
      (if chunks.any (fun c => (c.drop 1).dropLast.any (fun | .err _ => true | _ => false)) then ["error-in-middle"] else []) ++
      (if (chunks.filter hasErr).length ≥ 2 then ["errors-in-several-chunks"] else []) ++
      (if anyErr then [] else ["no-error"]) ++
      (if chunks.any (·.isEmpty) && !nonEmpty.isEmpty then ["some-empty-chunk"] else [])
    match o with
    | none => { kind := "specfail", nontrivial, classes, detail := "implementation panicked" }
    | some (outs, extra, len) =>
      let pre := beforeFirstErr outs
      let specFail : Option String :=
        if !(sortedFor rev pre) then some s!"items before the first error are not in order: {showItems pre}"
        else if !(subMulti (canonMulti pre) (canonMulti allOk)) then some s!"items delivered that no chunk contains (or an item delivered twice): {showItems pre}"
        else if len != n then some s!"len() = {len}, constructed with {n}"
        else if !(hasErr outs) then
          if anyErr then some "a chunk produced an error but the merged stream ended without delivering one"
          else if canonMulti (okItems outs) != canonMulti allOk then some s!"merged stream without error is not complete: {showItems (okItems outs)} vs chunks {showItems allOk}"
          else if extra.any id then some "stream yielded an item after it had ended"
          else none
        else none
      match specFail with
      | some d => { kind := "specfail", nontrivial, classes, detail := d }
      | none =>
        if big then { kind := "ok", nontrivial, classes } else
        let m := drain cmp chunks
        let mpre := beforeFirstErr m.1
        let mExtra1 := m.2.next cmp
        let mExtra2 := mExtra1.2.next cmp
        -- without errors the stream is determined up to the order of ties; with an error item somewhere the
        -- property fixes only that an error is delivered and that the items before it are in order — not
        -- where in the stream the error appears nor which chunk's error comes first
        let disagree := if anyErr then hasErr m.1 != hasErr outs
          else canonTies rev mpre != canonTies rev pre || firstErr m.1 != firstErr outs || mExtra1.1.isSome || mExtra2.1.isSome
        if disagree then
          { kind := "diverge", nontrivial, classes, detail := s!"model: before first error {showItems mpre}, first error {firstErr m.1}; implementation: {showItems pre}, {firstErr outs}" }
        else { kind := "ok", nontrivial, classes }
  | _, _ => { kind := "badcase", detail := "unparsable C10 case" }

/-! ## C01 -/
def handleC01 (inp obs : List String) : Verdict :=
  let parsed := (do
    let rev ← bool; let c ← nat; let threads ← nat; let comp ← opt nat; let tmp ← nat; let ty ← tok; let builderOrder ← nat
    let xs ← many pSItem
    pure (rev, c, threads, comp, tmp, ty, xs, builderOrder)).run inp
  let pobs : Option ((Option (Nat × List (Item Nat SItem)) × String) × List String) := (do
    let t ← peek?
    if t == some "panic" then pure (none, "panic")
    else if t == some "sorterr" then pure (none, "sort_by returned Err")
    else if t == some "abort" then pure (none, "the process running the sort aborted (e.g. memory allocation failure)")
    else do
      let len ← nat
      let outs ← many pChunkItem
      pure (some (len, outs), "")).run obs
  match parsed, pobs with
  | some ((rev, c, threads, comp, tmp, ty, xs, builderOrder), _), some ((o, why), _) =>
    let cmp := cmpItem rev
    -- (builderOrder / 24) % 3: 0 one sort per sorter; 1 / 2: the observed sort is the first / second of two on one sorter
    let reuse := (builderOrder / 24) % 4
    let n := xs.length
    let rs := runs c xs
    let hasTie := (canonMulti xs).zip ((canonMulti xs).drop 1) |>.any (fun ab => cmpKey ab.1.1 ab.2.1 == .eq)
    let nontrivial := n ≥ 2 && (rs.length ≥ 2 || hasTie)
    let classes :=
      (if n == 0 then ["len-0"] else if n == 1 then ["len-1"] else []) ++
      (if c == 0 then ["chunk-0"] else if c == 1 then ["chunk-1"] else []) ++
      (if c > 0 && n > 0 && n % c == 0 then ["len-multiple-of-chunk"] else []) ++
      (if c > 0 && n % c == c - 1 && c > 1 then ["len-k-chunk-minus-1"] else []) ++
      (if c > 0 && n % c == 1 && n > 1 && c > 1 then ["len-k-chunk-plus-1"] else []) ++
      (if c > n then ["chunk-larger-than-input"] else []) ++ (if c == n && n > 0 then ["chunk-equals-input"] else []) ++
      (if c ≥ 2^33 then ["chunk-size-above-2^33"] else []) ++ (if c == 2^64 - 1 then ["chunk-size-usize-max"] else []) ++
      (if hasTie then ["ties"] else []) ++
      (if sortedFor rev xs && n ≥ 2 then ["already-sorted"] else []) ++ (if sortedFor (!rev) xs && n ≥ 2 then ["reversed-input"] else []) ++
      [s!"threads-{threads}", s!"compression-{match comp with | none => "none" | some l => toString l}", s!"tmpdir-{if tmp == 1 then "explicit" else "default"}", s!"type-{ty}"] ++
      (if xs.any (fun x => x.2.length > 8192) then ["record-larger-than-8KiB"] else []) ++
      (if xs.any (fun x => x.2.length > 65536) then ["record-larger-than-64KiB"] else []) ++
      (if rev then ["reversed-comparator"] else []) ++
      (if reuse == 1 then ["sorter-reused-observed-first"] else if reuse == 2 then ["sorter-reused-observed-second"] else if reuse == 3 then ["sorter-dropped-before-first-read"] else [])
    match o with
    | none => { kind := "specfail", nontrivial, classes, detail := why }
    | some (len, outs) =>
      let oks := okItems outs
      let specFail : Option String :=
        if hasErr outs then some "the sorted stream contains an error item"
        else if len != n then some s!"initial len() = {len}, {n} records supplied"
        else if canonMulti oks != canonMulti xs then some s!"output is not a permutation of the input (field-for-field): {oks.length} items out, {n} in"
        else if !(sortedFor rev oks) then some s!"output is not in non-decreasing comparator order"
        else none
      match specFail with
      | some d => { kind := "specfail", nontrivial, classes, detail := d ++ s!" [chunk_size {c}, threads {threads}, compression {comp}]" }
      | none =>
        -- any sorted permutation meets the contract of the in-memory sort (C01_sortBy); merge sort keeps large cases fast
        let m := sortBy (fun cm l => l.mergeSort (fun a b => cm a b != .gt)) cmp (fun l => l.map (Item.ok (ε := Nat))) c xs
        if m.1 != len || canonTies rev (okItems m.2) != canonTies rev oks then
          { kind := "diverge", nontrivial, classes, detail := "model output differs (up to the order of ties)" }
        else { kind := "ok", nontrivial, classes }
  | _, _ => { kind := "badcase", detail := "unparsable C01 case" }

end BV.Driver
