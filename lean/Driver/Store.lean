import Driver.Proto
import BedVerif.Model.Store
import BedVerif.Model.BufRead
/-!
Driver handler for C09 (chunk framing under short writes, short reads, interrupts and hard I/O errors).
-/
namespace BV.Driver
open BV

def pWFault : Parser WFault := do
  let t ← tok
  if t == "a" then do let k ← nat; pure (.accept k) else if t == "f" then pure .fail else failure
def pRFault : Parser RFault := do
  let t ← tok
  if t == "g" then do let k ← nat; pure (.give k) else if t == "i" then pure .interrupted else if t == "f" then pure .fail else failure
def pRes : Parser Bool := do let t ← tok; if t == "ok" then pure true else if t == "err" then pure false else failure
def pItems : Parser (List (IoRes Bytes)) := many (do
  let t ← tok
  if t == "o" then do let b ← bytes; pure (IoRes.ok b) else if t == "e" then pure IoRes.err else failure)

def okPrefix : List (IoRes Bytes) → List Bytes
  | [] => []
  | .ok b :: xs => b :: okPrefix xs
  | .err :: _ => []
def endsWithErr (l : List (IoRes Bytes)) : Bool := l.any (fun | .err => true | _ => false)

def sizeClasses (ps : List Bytes) : List String :=
  (if ps.any (·.isEmpty) then ["payload-0"] else []) ++
  (if ps.any (fun p => p.length == 8191 || p.length == 8192 || p.length == 8193) then ["payload-at-8KiB"] else []) ++
  (if ps.any (fun p => p.length ≥ 8192) then ["payload-above-bufwriter-capacity"] else []) ++
  (if ps.any (fun p => p.length > 65536) then ["payload-above-64KiB"] else []) ++
  (if ps.isEmpty then ["no-records"] else [])

def handleC09 (inp obs : List String) : Verdict :=
  match inp with
  | "w" :: rest =>
    let parsed := (do let stack ← nat; let cap ← nat; let _kind ← nat; let plan ← many pWFault; let ps ← many bytes; pure (stack, cap, plan, ps)).run rest
    let pobs : Option ((Option (Bool × Option Bool × Bytes × List (IoRes Bytes))) × List String) := (do
      match (← peek?) with
      | some "panic" => pure none
      | _ =>
        let d ← pRes
        let f ← opt pRes
        let stored ← bytes
        let back ← pItems
        pure (some (d, f, stored, back))).run obs
    match parsed, pobs with
    | some ((stack, cap, plan, ps), _), some (o, _) =>
      let hard := plan.any (· == .fail)
      let short := plan.any (fun | .accept _ => true | _ => false)
      let classes := [s!"write-stack-{if stack == 0 then "bare" else if stack == 1 then "bufwriter" else "lz4"}"] ++ sizeClasses ps ++
        (if hard then ["hard-write-error"] else []) ++ (if short then ["short-write"] else []) ++ (if plan.isEmpty then ["no-fault"] else []) ++
        (if plan.length ≥ 2 && (plan.filter (fun | .accept _ => true | .fail => true)).length ≥ 2 then ["multi-fault"] else [])
      match o with
      | none => { kind := "specfail", nontrivial := !plan.isEmpty, classes, detail := "implementation panicked" }
      | some (d, f, stored, back) =>
        let ok := d && f.getD true
        -- did the implementation reach a fault at all? (model: faults consumed)
        let modelRes : Option (Bool × Bytes × Nat) :=
          if stack == 0 then let r := dumpBare ⟨[], plan⟩ ps; some (r.1 == .ok (), r.2.data, plan.length - r.2.plan.length)
          else if stack == 1 then let r := dumpBuf ⟨cap, [], ⟨[], plan⟩⟩ ps; some (r.1 == .ok (), r.2.inner.data, plan.length - r.2.inner.plan.length)
          else none
        let nontrivial := match modelRes with | some (_, _, used) => used > 0 | none => !plan.isEmpty
        let specFail : Option String :=
          if stack == 2 then
            if ok && okPrefix back != ps then some s!"dump and finish reported Ok but the chunk reads back {(okPrefix back).length} of {ps.length} records unaltered"
            else if !hard && !ok then some "no hard error in the plan, yet the dump reported an error"
            else none
          else if ok && stored != frames ps then some s!"dump and flush reported Ok but {stored.length} bytes reached the storage, the framed records are {(frames ps).length} bytes"
          else if !hard && !ok then some "no hard error in the plan, yet the dump reported an error"
          else none
        match specFail with
        | some dd => { kind := "specfail", nontrivial, classes, detail := dd ++ s!" [plan {repr plan}, payload sizes {ps.map List.length}]" }
        | none =>
          match modelRes with
          | some (mok, mdata, _) =>
            -- the property determines the outcome when the plan holds no hard error (Ok, exact bytes); with a
            -- hard error in the plan whether it is *reached* depends on the sequence of storage calls, which a
            -- harmless rewrite may change: there the spec above (Ok ⇒ exact bytes) is all that is compared
            if !hard && (mok != ok || mdata != stored) then { kind := "diverge", nontrivial, classes, detail := s!"model result {mok}, {mdata.length} bytes; implementation {ok}, {stored.length} bytes" }
            else if hard && mok && ok && mdata != stored then { kind := "diverge", nontrivial, classes, detail := "model and implementation both Ok with different bytes" }
            else { kind := "ok", nontrivial, classes }
          | none => { kind := "ok", nontrivial, classes }
    | _, _ => { kind := "badcase", detail := "unparsable C09 write case" }
  | "r" :: rest =>
    let parsed := (do let stack ← nat; let _kind ← nat; let plan ← many pRFault; let ps ← many bytes; pure (stack, plan, ps)).run rest
    let pobs : Option (Option (List (IoRes Bytes)) × List String) := (do
      match (← peek?) with
      | some "panic" => pure none
      | _ => let l ← pItems; pure (some l)).run obs
    match parsed, pobs with
    | some ((stack, plan, ps), _), some (o, _) =>
      let hard := plan.any (· == .fail)
      -- stack 1: BufReader::new (8 KiB); 100 + cap: BufReader::with_capacity(cap)
      let bufCap : Option Nat := if stack == 1 then some 8192 else if stack ≥ 100 then some (stack - 100) else none
      let classes := [s!"read-stack-{if stack == 0 then "bare" else if bufCap.isSome then "bufreader" else "lz4"}"] ++ sizeClasses ps ++
        (match bufCap with | some c => if c < 64 then ["bufreader-small-capacity"] else [] | none => []) ++
        (if hard then ["hard-read-error"] else []) ++ (if plan.any (fun | .give _ => true | _ => false) then ["short-read"] else []) ++
        (if plan.any (· == .interrupted) then ["interrupted-read"] else []) ++ (if plan.isEmpty then ["no-fault"] else [])
      let model := match bufCap with
        | some c => chunkItemsBuf (ps.length + 2) ⟨c, [], ⟨frames ps, plan⟩⟩
        | none => chunkItems (ps.length + 2) ⟨frames ps, plan⟩
      let nontrivial := !plan.isEmpty
      match o with
      | none => { kind := "specfail", nontrivial, classes, detail := "implementation panicked" }
      | some items =>
        let pre := okPrefix items
        let specFail : Option String :=
          if pre != ps.take pre.length then some s!"a record read back differs from the record dumped (record {(((pre.zip ps).takeWhile (fun ab => ab.1 == ab.2)).length)})"
          else if !(endsWithErr items) && pre.length != ps.length then some s!"the chunk ended without an error after {pre.length} of {ps.length} records"
          else if !hard && endsWithErr items then some "no hard error in the plan, yet the chunk yielded an error"
          else none
        match specFail with
        | some dd => { kind := "specfail", nontrivial, classes, detail := dd ++ s!" [plan {repr plan}, payload sizes {ps.map List.length}]" }
        | none =>
          -- without a hard error the item sequence is determined (all records, then the end); with one, at
          -- which record it strikes depends on the read-call sequence: only the spec above applies
          if (stack == 0 || bufCap.isSome) && !hard && model != items then { kind := "diverge", nontrivial, classes, detail := s!"model yields {model.length} items (error {endsWithErr model}), implementation {items.length} (error {endsWithErr items})" }
          else { kind := "ok", nontrivial, classes }
    | _, _ => { kind := "badcase", detail := "unparsable C09 read case" }
  | _ => { kind := "badcase", detail := "unknown C09 case kind" }

end BV.Driver
