import Driver.Proto
import BedVerif.Spec.Text
/-!
Driver handlers for C03, C12, C04. Floats are bit patterns (`Nat`); the text codec of std is
supplied per case by the harness as tables (parse: text → bits; render: bits → text).
-/
namespace BV.Driver
open BV

abbrev FBits := Nat
def negOneBits : FBits := 13830554455654793216      -- (-1.0f64).to_bits()
def isNaNBits (b : FBits) : Bool := (b / 2^52) % 2048 == 2047 && b % 2^52 != 0
def ltZeroBits (b : FBits) : Bool := b ≥ 2^63 && b != 2^63 && !isNaNBits b

def mkCodec (ptab : List (Bytes × Option FBits)) (rtab : List (FBits × Bytes)) : FloatCodec FBits :=
  { parse := fun t => match ptab.find? (fun e => e.1 == t) with | some e => e.2 | none => none
    render := fun b => match rtab.find? (fun e => e.1 == b) with | some e => e.2 | none => [63]   -- '?' when the harness gave no text
    ltZero := ltZeroBits, negOne := negOneBits, isNaN := isNaNBits }

def pTy : Parser Ty := do
  let n ← nat
  if n == 0 then pure .gr else if 3 ≤ n && n ≤ 9 then pure (.bed n)
  else if n == 10 then pure .narrowPeak else if n == 11 then pure .broadPeak
  else if n == 12 then pure .bgInt else if n == 13 then pure .bgFloat else failure

def pStrandTok : Parser (Option Strand) := do
  let n ← nat; pure (if n == 1 then some .fwd else if n == 2 then some .rev else none)

def pTRec : Parser (TRec FBits) := do
  let chrom ← bytes; let start ← nat; let stop ← nat
  let name ← opt bytes; let score ← opt nat; let strand ← pStrandTok
  let signal ← opt nat; let p ← opt nat; let q ← opt nat; let peak ← opt nat; let ival ← opt int
  pure { chrom, start, stop, name, score, strand, signal, p, q, peak, ival }

def pPTab : Parser (List (Bytes × Option FBits)) := many (do let t ← bytes; let v ← opt nat; pure (t, v))
def pRTab : Parser (List (FBits × Bytes)) := many (do let b ← nat; let t ← bytes; pure (b, t))

inductive PRes | ok (r : TRec FBits) | err (cls : String) | panic
deriving DecidableEq

def pPRes : Parser PRes := do
  let t ← tok
  if t == "ok" then do let r ← pTRec; pure (.ok r)
  else if t == "err" then do let c ← tok; pure (.err c)
  else if t == "panic" then pure .panic
  else failure

def modelParse (fc : FloatCodec FBits) (ty : Ty) (line : Bytes) : PRes :=
  match parseT fc ty line with
  | .ok r => .ok r | .err e => .err (errClass e) | .panic => .panic

def showPRes : PRes → String
  | .ok r => s!"ok({hexEncode r.chrom},{r.start},{r.stop},name={r.name.map hexEncode},score={r.score},strand={repr r.strand},signal={r.signal},p={r.p},q={r.q},peak={r.peak},ival={r.ival})"
  | .err c => s!"err({c})" | .panic => "panic"

/-! ## C12 -/
def handleC12 (inp obs : List String) : Verdict :=
  let parsed := (do let ty ← pTy; let line ← bytes; let ptab ← pPTab; pure (ty, line, ptab)).run inp
  match parsed, pPRes.run obs with
  | some ((ty, line, ptab), _), some (o, robs) =>
    let fc := mkCodec ptab []
    let expect := c12Expect fc ty line
    let cols := splitOn (· == TAB) line
    let nontrivial := expect != .accept || cols.length > bedCols ty + (extraColOk fc ty).length
    let classes :=
      (match expect with | .accept => ["accepted"] | .bedError e => [errClass e] | .someError => ["format-column-error"]) ++
      (if cols.length > bedCols ty + (extraColOk fc ty).length then ["extra-columns"] else []) ++
      (if line.isEmpty then ["empty-string"] else []) ++
      (if line.any (· ≥ 128) then ["non-ascii"] else []) ++
      (if cols.length < bedCols ty then ["prefix-of-valid-line"] else []) ++
      (if line.length > 64 && line.any (· ≥ 128) then ["long-non-ascii-line"] else []) ++
      (match robs with | "rd" :: _ => ["through-reader"] | _ => [])
    -- the line between two well-formed lines of a Reader: three items, the middle one Ok iff the line must be
    -- accepted (a blank line is rejected, not taken for the end of input), never a panic
    let readerBad : Option String := match robs with
      | "rd" :: a :: b :: _ =>
        let want := if expect == .accept then "ok" else "err"
        if a != want || b != want then some s!"between two well-formed lines: Reader::records -> {a}, into_records -> {b}; required: three items, the middle one {want}" else none
      | _ => none
    if let some d := readerBad then
      { kind := "specfail", nontrivial, classes, detail := s!"line {hexEncode line} as {repr ty}: {d}" } else
    let specOk : Bool := match o, expect with
      | .panic, _ => false
      | .ok _, .accept => true
      | .err _, .accept => false
      | .err c, .bedError e => c == errClass e
      | .err _, .someError => true
      | .ok _, _ => false
    if !specOk then
      { kind := "specfail", nontrivial, classes,
        detail := s!"parse::<{repr ty}>({hexEncode line}) = {showPRes o}; required: {match expect with | .accept => "Ok" | .bedError e => "Err " ++ errClass e | .someError => "Err"}" }
    else
      let m := modelParse fc ty line
      -- the property fixes the error only for the BED columns: when a format-specific column is at
      -- fault, model and implementation agree as soon as both reject the line
      let agree := match expect, m, o with
        | .someError, .err _, .err _ => true
        | _, _, _ => m == o
      if !agree then { kind := "diverge", nontrivial, classes, detail := s!"model {showPRes m}, implementation {showPRes o}" }
      else { kind := "ok", nontrivial, classes }
  | _, _ => { kind := "badcase", detail := "unparsable C12 case" }

/-! ## C03 -/
def cleanB (s : Bytes) : Bool := !(s.contains TAB || s.contains LF || s.contains CR)

def handleC03 (inp obs : List String) : Verdict :=
  match inp with
  | "score" :: rest =>
    -- Score::try_from(n) and Score::from_str(n.to_string())
    let parsed := (do let n ← nat; pure n).run rest
    let pobs := (do let a ← opt nat; let b ← opt nat; let txt ← bytes; pure (a, b, txt)).run obs
    match parsed, pobs with
    | some (n, _), some ((tf, ps, txt), _) =>
      let classes := (if n == 1000 then ["score-1000"] else if n == 1001 then ["score-1001"] else if n == 0 then ["score-0"] else if n > 1000 then ["score-above-1000"] else ["score-in-range"]) ++
        (if n == U32MAX then ["score-u32max"] else [])
      let specOk := tf == (if n ≤ 1000 then some n else none) && ps == some (min n 1000) && txt == showNat n
      if !specOk then { kind := "specfail", nontrivial := true, classes, detail := s!"score {n}: try_from = {tf}, from_str(display) = {ps}" }
      else if scoreTryFrom n != tf || parseScore (showNat n) != ps then { kind := "diverge", nontrivial := true, classes, detail := "model score differs" }
      else { kind := "ok", nontrivial := true, classes }
    | _, _ => { kind := "badcase", detail := "unparsable C03 score case" }
  | _ =>
  let parsed := (do let ty ← pTy; let r ← pTRec; let rtab ← pRTab; let ptab ← pPTab; pure (ty, r, rtab, ptab)).run inp
  let pobs := (do
    let text ← bytes; let back ← pPRes
    let pretty ← opt (do let t ← bytes; let b ← pPRes; pure (t, b))
    pure (text, back, pretty)).run obs
  match parsed, pobs with
  | some ((ty, r, rtab, ptab), _), some ((text, back, pretty), _) =>
    let fc := mkCodec ptab rtab
    let nontrivial := r.name.isSome || r.score.isSome || r.strand.isSome || r.signal.isSome
    let classes :=
      [s!"name-{if r.name.isSome then 1 else 0}-score-{if r.score.isSome then 1 else 0}-strand-{if r.strand.isSome then 1 else 0}"] ++
      (if r.score == some 0 then ["score-0"] else []) ++ (if r.score == some 1000 then ["score-1000"] else []) ++
      (if r.start == 0 then ["start-0"] else []) ++ (if r.stop == U64MAX then ["end-u64max"] else []) ++
      (if r.chrom.isEmpty then ["empty-chrom"] else []) ++ (if r.name == some [] then ["empty-name"] else []) ++
      (if r.chrom.any (· ≥ 128) || (r.name.getD []).any (· ≥ 128) then ["non-ascii"] else []) ++
      (if r.p.isNone && (ty == .narrowPeak || ty == .broadPeak) then ["p-absent"] else []) ++
      (if r.p == some 0 then ["p-zero"] else []) ++ (if r.p == some (2^63) || r.q == some (2^63) then ["p-negzero"] else []) ++
      (if (r.signal.getD 0) / 2^52 % 2048 == 2047 then ["signal-inf"] else []) ++
      (if (match r.signal with | some s => s / 2^52 % 2048 == 0 && s % 2^52 != 0 | none => false) then ["signal-subnormal"] else []) ++
      (if (match r.ival with | some v => decide (v < 0) | none => false) then ["bedgraph-negative"] else []) ++
      [s!"type-{match ty with | .gr => "gr" | .bed n => s!"bed{n}" | .narrowPeak => "narrowpeak" | .broadPeak => "broadpeak" | .bgInt => "bedgraph-int" | .bgFloat => "bedgraph-float"}"]
    -- the spec on the implementation's observable
    let layoutOk := text == intercalate [TAB] (columnsT fc ty r)
    let singleLine := !(text.contains LF)
    let rtOk := back == .ok r
    let prettyOk := match ty, pretty with
      | .gr, some (t, b) => t == r.chrom ++ [COLON] ++ showNat r.start ++ [DASH] ++ showNat r.stop && b == .ok r
      | .gr, none => false
      | _, _ => true
    if !(layoutOk && singleLine && rtOk && prettyOk) then
      { kind := "specfail", nontrivial, classes,
        detail := s!"{repr ty}: to_string = {hexEncode text}; standard layout {hexEncode (intercalate [TAB] (columnsT fc ty r))}; parse back = {showPRes back}; original {showPRes (.ok r)}; layout ok {layoutOk}, single line {singleLine}, round trip ok {rtOk}, pretty ok {prettyOk}" }
    else
      let mtext := showT fc ty r
      let mback := modelParse fc ty mtext
      if mtext != text || mback != back then { kind := "diverge", nontrivial, classes, detail := s!"model text {hexEncode mtext}, parse {showPRes mback}" }
      else { kind := "ok", nontrivial, classes }
  | _, _ => { kind := "badcase", detail := "unparsable C03 case" }

/-! ## C04 -/
inductive ROut | recd (r : TRec FBits) | err
deriving DecidableEq

def pROut : Parser ROut := do
  let t ← tok
  if t == "r" then do let r ← pTRec; pure (ROut.recd r) else if t == "e" then pure ROut.err else failure

def pROuts : Parser (Option (List ROut)) := do
  let nx ← peek?
  if nx == some "abort" || nx == some "panic" then do
    let _ ← tok
    pure none
  else do
    let l ← many pROut
    pure (some l)

def toROut : RItem (TRec FBits) → ROut
  | .record r => .recd r | .parseErr _ => .err | .ioErr => .err

/-- expected outcome of a line by construction of the stream -/
inductive LineKind | written (r : TRec FBits) | skipped | bad | free
deriving DecidableEq

def handleC04 (inp obs : List String) : Verdict :=
  match inp with
  | "skiprun" :: rest =>
    -- k consecutive skipped lines around m records, small stack, child process
    let parsed := (do let k ← nat; let place ← nat; let m ← nat; let unterminated ← bool; pure (k, place, m, unterminated)).run rest
    let pobs := (do let t ← tok; if t == "abort" then pure none else do let n ← t.toNat?; let e ← nat; pure (some (n, e))).run obs
    match parsed, pobs with
    | some ((k, place, m, un), _), some (o, _) =>
      let classes := [s!"skip-run-{if k ≥ 1000000 then "1e6" else if k ≥ 100000 then "1e5" else if k ≥ 1000 then "1e3" else "small"}",
        s!"skip-run-at-{if place == 0 then "start" else if place == 1 then "middle" else "end"}"] ++ (if un then ["skip-run-unterminated"] else [])
      match o with
      | none => { kind := "specfail", nontrivial := true, classes, detail := s!"reader aborted (stack exhausted) on {k} consecutive skipped lines" }
      | some (n, e) =>
        if n != m || e != 0 then { kind := "specfail", nontrivial := true, classes, detail := s!"{n} records and {e} errors read, {m} records written" }
        else { kind := "ok", nontrivial := true, classes }
    | _, _ => { kind := "badcase", detail := "unparsable C04 skiprun case" }
  | _ =>
  let parsed := (do
    let ty ← pTy
    let pfx ← opt bytes
    let lines ← many (do
      let k ← tok
      let kind ← (if k == "w" then do let r ← pTRec; pure (LineKind.written r)
                  else if k == "s" then pure LineKind.skipped else if k == "b" then pure LineKind.bad else if k == "f" then pure LineKind.free else failure)
      let raw ← bytes
      pure (kind, raw))
    let frags ← many nat
    let ptab ← pPTab
    pure (ty, pfx, lines, frags, ptab)).run inp
  -- five ways of reading, plus (newer harness) two mixed ones: k items through records() then into_records() on
  -- the same reader; one line through read_record then records()
  let pobs := (do let a ← pROuts; let b ← pROuts; let c ← pROuts; let d ← pROuts; let e ← pROuts
                  let f ← opt' pROuts; let g ← opt' pROuts; pure ([a, b, c, d, e] ++ f.toList ++ g.toList)).run obs
  match parsed, pobs with
  | some ((ty, pfx, lines, frags, ptab), _), some (os, _) =>
    let fc := mkCodec ptab []
    let input := lines.flatMap (·.2)
    let raws := lines.map (·.2)
    let nontrivial := lines.length ≥ 2 && (
      raws.any (fun r => r.reverse.take 2 == [LF, CR]) || lines.any (fun l => l.1 == .skipped || l.1 == .bad) ||
      (match raws.getLast? with | some r => r.getLast? != some LF | none => false) || frags.any (· < 8))
    let classes :=
      (if raws.any (fun r => r.reverse.take 2 == [LF, CR]) then ["crlf"] else []) ++
      (if raws.any (fun r => r.getLast? == some LF && r.reverse.take 2 != [LF, CR]) then ["lf"] else []) ++
      (match raws.getLast? with | some r => if r.getLast? != some LF then ["unterminated-last-line"] else [] | none => ["empty-stream"]) ++
      (if raws.any (fun r => r == [LF] || r == [CR, LF]) then ["blank-line"] else []) ++
      (if raws.any (fun r => (stripEol r).getLast? == some CR) then ["lone-cr"] else []) ++
      (if lines.any (fun l => l.1 == .skipped) then ["skipped-line"] else []) ++
      (if lines.any (fun l => l.1 == .skipped && some (stripEol l.2) == pfx) then ["line-is-prefix-exactly"] else []) ++
      (if lines.any (fun l => match pfx with | some p => (stripEol l.2).length < p.length && isPrefix (stripEol l.2) p && !(stripEol l.2).isEmpty | none => false) then ["prefix-longer-than-line"] else []) ++
      (match pfx with | some p => (if p.any (· ≥ 128) then ["multibyte-prefix"] else []) ++ (if p.length > 1 then ["long-prefix"] else []) | none => ["no-prefix"]) ++
      (if lines.any (fun l => l.1 == .bad) then ["malformed-line"] else []) ++
      (if raws.any (fun r => !utf8Valid r) then ["invalid-utf8-line"] else []) ++
      (if frags.any (· == 1) then ["one-byte-reads"] else []) ++ (if frags.any (· == 0) then ["interrupted-reads"] else [])
    if os.any (·.isNone) then { kind := "specfail", nontrivial, classes, detail := "reader panicked or aborted" } else
    let outs := os.filterMap id
    let first := outs.headD []
    -- (1) the specification: exactly one item per non-skipped line, in order: the record for a written
    --     line, an error for a malformed one; skipped lines yield nothing
    let expectByConstruction : List (Option ROut) := lines.filterMap (fun l => match l.1 with
      | .written r => some (some (.recd r)) | .skipped => none | .bad => some (some .err) | .free => some none)
    let consOk := first.length == expectByConstruction.length &&
      (first.zip expectByConstruction).all (fun (a, e) => match e with | some x => a == x | none => true)
    -- (2) all five ways of reading agree: records / into_records over a slice, over the fragmenting
    --     reader, and read_record-driven
    let agree := outs.all (· == first)
    if !consOk then
      { kind := "specfail", nontrivial, classes, detail := s!"{first.length} items for {expectByConstruction.length} non-skipped lines, or an item differs from the written record / expected error; stream {hexEncode input}" }
    else if !agree then
      { kind := "specfail", nontrivial, classes, detail := s!"records(), into_records(), fragmented reads, read_record or the mixed uses of one reader disagree: item counts {outs.map List.length}; stream {hexEncode input} fragments {frags}" }
    else
      let model := (readAll (parseT fc ty) pfx input).map toROut
      let spec := (specItems (parseT fc ty) pfx input).map toROut
      if model != first || spec != first then { kind := "diverge", nontrivial, classes, detail := s!"model yields {model.length} items, implementation {first.length}" }
      else { kind := "ok", nontrivial, classes }
  | _, _ => { kind := "badcase", detail := "unparsable C04 case" }

end BV.Driver
