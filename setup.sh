#!/bin/sh
# Offline build of the framework from files on disk: Lean models, theorems, driver; Rust harness.
set -e
cd "$(dirname "$0")"
(cd lean && lake build)
(cd harness && CARGO_NET_OFFLINE=true cargo build --offline)
