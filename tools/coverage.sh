#!/bin/bash
# tools/coverage.sh [quick|thorough] — which lines of /repo/src does the correspondence check execute?
# Builds the harness with source-based coverage instrumentation (nightly toolchain: it ships llvm-cov and
# llvm-profdata), runs the generators of every property against the real code (driver verdicts included),
# and writes, per modelled source file, the executable lines never reached -> tools/coverage_report.txt.
# A measurement of the generators (trusted base item 2), not a check: it decides nothing.
set -u
TIER=${1:-thorough}
V=/verif; H=$V/harness; T=$H/target-cov; P=$H/run/cov-$$
NB=$HOME/.rustup/toolchains/nightly-x86_64-unknown-linux-gnu/lib/rustlib/x86_64-unknown-linux-gnu/bin
export CARGO_NET_OFFLINE=true
mkdir -p $P
(cd $H && RUSTFLAGS="-Cinstrument-coverage" cargo +nightly build --offline --target-dir $T 2>&1 | tail -3) || exit 2
(cd $V/lean && lake build bvdriver >/dev/null)
for i in $(seq -w 1 20); do
  LLVM_PROFILE_FILE="$P/C$i-%p-%m.profraw" VERIF_DIR=$V $T/debug/bvharness run C$i --tier $TIER --seed ${VERIF_SEED:-1} \
     --driver $V/lean/.lake/build/bin/bvdriver --stats $P/stats-C$i.json > $P/C$i.log 2>&1
  echo "C$i exit=$? $(ls $P | grep -c "^C$i-.*profraw") profiles"
done
$NB/llvm-profdata merge -sparse $P/*.profraw -o $P/all.profdata || exit 2
$NB/llvm-cov report $T/debug/bvharness -instr-profile=$P/all.profdata --sources /repo/src 2>/dev/null | tee $V/tools/coverage_report.txt
$NB/llvm-cov show $T/debug/bvharness -instr-profile=$P/all.profdata --sources /repo/src --show-line-counts-or-regions 2>/dev/null > $P/show.txt
python3 - $P/show.txt >> $V/tools/coverage_report.txt <<'PY'
import re,sys
cur=None; test=False
print("\nExecutable lines of /repo/src never executed by the harness (outside #[cfg(test)] modules):")
for l in open(sys.argv[1]):
    m=re.match(r'^(/repo/src/\S+):$', l.strip())
    if m: cur=m.group(1); test=False; continue
    m=re.match(r'^\s*(\d+)\|\s*(\d+|[\d.]+[kKMG]?)?\|(.*)$', l)
    if not m or cur is None: continue
    ln, cnt, src = m.group(1), m.group(2), m.group(3)
    if 'mod test' in src or 'mod bed_tests' in src or '#[cfg(test)]' in src: test=True
    if cnt == '0' and not test: print("%s:%s:%s" % (cur, ln, src.rstrip()))
PY
rm -rf $P
echo "report: $V/tools/coverage_report.txt"
