#!/usr/bin/env python3
"""Regenerates MANIFEST.json from props_meta.json (claimed properties) and properties.jsonl."""
import json, os
V = os.path.dirname(os.path.dirname(os.path.abspath(__file__)))
meta = json.load(open(os.path.join(V, "props_meta.json")))
all_ids = [json.loads(l)["id"] for l in open(os.path.join(V, "properties.jsonl"))]
claimed = [p for p in all_ids if p in meta and meta[p].get("claimed", True)]
checks = []
for p in claimed:
    m = meta[p]
    checks.append({
        "property_id": p,
        "quick_cmd": "./check %s --tier quick" % p,
        "thorough_cmd": "./check %s --tier thorough" % p,
        "evidence_file": "evidence/%s.json" % p,
        "replay_cmd_template": "./check %s --replay {path}" % p,
        "engine": "lean-model+correspondence",
        "level_claimed": {"category": "proof", "text": m["level_text"], "design_ref": m.get("design_ref", "DESIGN.md section 6, " + p)},
        "level_note": m["level_note"],
        "technique": m["technique"],
    })
na = []
for p in all_ids:
    if p not in claimed:
        na.append({"property_id": p, "reason": meta.get(p, {}).get("na_reason", "not yet claimed: model, theorems and correspondence check for this property are still being built (see DESIGN.md section 6 for the plan)")})
man = {
    "version": 1,
    "setup_cmd": "./setup.sh",
    "hooks": {
        "guard": "cargo feature verif-hooks",
        "enable": "harness/Cargo.toml depends on bed-utils = { path = \"/repo\", features = [\"verif-hooks\"] }",
        "baseline_off_cmd": "cd /repo && cargo nextest run --workspace --no-fail-fast --offline",
        "source_commits": json.load(open(os.path.join(V, "hooks_commits.json"))),
        "add_only": True,
    },
    "engines": [{
        "name": "lean-model+correspondence", "path": "/verif/check", "serves_properties": claimed,
        "kind_free_text": "Lean 4 theorems about a hand-written executable model of the Rust algorithms (lean/BedVerif), tied to /repo on every run by a differential correspondence check: a Rust harness (harness/) runs the real code on corpus + generated cases and a compiled Lean driver (lean/Driver) runs the model and the decidable form of the spec on the same cases",
    }],
    "checks": checks,
    "notes": "All checks: ./check <id> [--tier quick|thorough] [--replay FILE]. Known findings: known_findings.txt. Seeded breaking changes used to validate the checks: seeded/. See DESIGN.md.",
    "not_applicable": na,
}
json.dump(man, open(os.path.join(V, "MANIFEST.json"), "w"), indent=1, ensure_ascii=False)
print("claimed:", claimed)
