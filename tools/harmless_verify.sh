#!/bin/bash
# tools/harmless_verify.sh <NAME> <DIFF> <notes.md or -> <props...>
# A behaviour-preserving rewrite: the 54 tests must pass with it and NO check may raise an alarm.
set -u
NAME=$1; DIFF=$2; NOTES=$3; shift 3; PROPS="$@"
V=/verif; W=/tmp/wt/verify-$NAME-$$
export CARGO_NET_OFFLINE=true
git -C /repo worktree add -q --detach $W HEAD || exit 2
cd $W; git apply $DIFF; AP=$?
cargo nextest run --workspace --no-fail-fast --offline > /tmp/wt/hv_$NAME.log 2>&1; S1=$?
PASSED=$(grep -o "[0-9]* passed" /tmp/wt/hv_$NAME.log | tail -1)
cd /; git -C /repo worktree remove --force $W
echo "apply=$AP suite_exit=$S1 ($PASSED)"
RES=""; ALARMS=0
if [ $AP -eq 0 ] && [ $S1 -eq 0 ]; then
  git -C /repo apply $DIFF || exit 3
  for Q in $PROPS; do
    (cd $V && VERIF_CASE_TIMEOUT_S=90 ./check $Q > /tmp/wt/hv_${NAME}_$Q.log 2>&1); E=$?
    L=$(grep -m1 "^VIOLATION" /tmp/wt/hv_${NAME}_$Q.log)
    [ $E -ne 0 ] && ALARMS=$((ALARMS+1)) && echo "ALARM $Q exit=$E $L" && sed -n 2,3p /tmp/wt/hv_${NAME}_$Q.log | cut -c1-400
    RES="$RES{\"property\":\"$Q\",\"exit\":$E,\"line\":\"$(echo $L | sed 's/"/\\"/g')\"},"
  done
  git -C /repo checkout -- . && git -C /repo clean -fdq src
  git -C /repo status --short
fi
DEST=$V/seeded/harmless/$NAME
mkdir -p $DEST; cp $DIFF $DEST/patch.diff; [ "$NOTES" != "-" ] && cp $NOTES $DEST/notes.md
cat > $DEST/meta.json <<EOM
{"name": "$NAME", "kind": "behaviour-preserving rewrite (every listed property still holds)", "patch_applies": $([ $AP -eq 0 ] && echo true || echo false), "suite_with_change": "$PASSED",
 "ran": ["git apply patch.diff (fresh worktree)", "cargo nextest run --workspace --no-fail-fast --offline", "git -C /repo apply patch.diff; ./check <id> for each listed property; git -C /repo checkout -- ."],
 "checks": [${RES%,}], "alarms": $ALARMS}
EOM
echo "$NAME: alarms=$ALARMS"
