#!/usr/bin/env python3
"""integrate.py SCRATCH.lean LemmaModuleName 'import lines for lemma file' PROP[,PROP...]
Splits a finished scratch proof file into BedVerif/Lemmas/<LemmaModuleName>.lean (every declaration whose
name does not start with a property id) and returns the property theorems per id on stdout as JSON."""
import re, sys, json
src = open(sys.argv[1]).read()
lemma_mod = sys.argv[2]
imports = sys.argv[3]
props = sys.argv[4].split(",")
body = src[src.index("namespace BV") + len("namespace BV"):]
body = body[:body.rindex("end BV")]
lines = body.split("\n")
START = re.compile(r"^(?:@\[[^\]]*\]\s*)?(?:private |protected |noncomputable )*(theorem|def|structure|inductive|abbrev|instance|lemma|example)\b")
decls = []   # (text)
cur = []
pending_doc = []
in_doc = False
def flush():
    global cur
    if cur:
        decls.append("\n".join(cur).rstrip() + "\n")
        cur = []
i = 0
while i < len(lines):
    l = lines[i]
    if l.startswith("/-!"):
        # section comment: skip it (may be multi-line)
        while "-/" not in lines[i]: i += 1
        i += 1; continue
    if l.startswith("/--"):
        flush()
        doc = [l]
        while "-/" not in lines[i]:
            i += 1; doc.append(lines[i])
        cur = doc
        i += 1
        # the declaration line follows
        continue
    if START.match(l):
        if cur and not START.match(cur[-1] if cur else "") and all(not START.match(x) for x in cur):
            cur.append(l)      # doc comment pending → attach
        else:
            flush(); cur = [l]
        i += 1; continue
    if l.startswith("variable") or l.startswith("open ") or l.startswith("section") or l.startswith("end ") or l.startswith("set_option"):
        flush(); decls.append(l + "\n"); i += 1; continue
    cur.append(l); i += 1
flush()
lem = []; out = {p: [] for p in props}
for d in decls:
    m = re.search(r"^(?:@\[[^\]]*\]\s*)?(?:private |protected |noncomputable )*(?:theorem|def|structure|inductive|abbrev|instance|lemma)\s+(\S+)", d, flags=re.M)
    name = m.group(1) if m else ""
    hit = [p for p in props if name.startswith(p + "_")]
    if hit: out[hit[0]].append(d)
    elif d.lstrip().startswith("example") or re.search(r"^example", d, flags=re.M):
        # examples follow the property they are next to: attach to the last property that received something
        tgt = next((p for p in reversed(props) if out[p]), None)
        (out[tgt] if tgt else lem).append(d)
    else: lem.append(d)
open("BedVerif/Lemmas/%s.lean" % lemma_mod, "w").write(imports.replace("\\n", "\n") + "\nnamespace BV\n\n" + "\n".join(lem) + "\nend BV\n")
json.dump(out, sys.stdout)
