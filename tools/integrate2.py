#!/usr/bin/env python3
"""integrate2.py PID 'header text'  — move Scratch/PID*.lean into BedVerif: helper files → Lemmas/, PIDTargets → Props/PID.lean"""
import re, sys, glob, os
pid = sys.argv[1]; header = sys.argv[2]
os.chdir(os.path.join(os.path.dirname(os.path.dirname(os.path.abspath(__file__))), "lean"))
def fix(s):
    s = re.sub(r"import Scratch\.(C\d\d)Targets", r"import BedVerif.Props.\1", s)
    s = re.sub(r"import Scratch\.(C\d\d\w+)", r"import BedVerif.Lemmas.\1", s)
    return s
for f in sorted(glob.glob("Scratch/%s*.lean" % pid)):
    name = os.path.basename(f)[:-5]
    s = fix(open(f).read())
    if name == pid + "Targets":
        s = re.sub(r"/-!\nTARGET STATEMENTS.*?-/\n", "/-!\n" + header.replace("\\n", "\n") + "\n-/\n", s, count=1, flags=re.S)
        if "#print axioms" in s: s = s[:s.index("#print axioms")].rstrip() + "\n"
        open("BedVerif/Props/%s.lean" % pid, "w").write(s)
    else:
        open("BedVerif/Lemmas/%s.lean" % name, "w").write(s)
    print("integrated", name)
