#!/usr/bin/env python3
"""Source of the per-property texts (trusted base, level, classes). Writes props_meta.json and MANIFEST.json."""
import json, os, subprocess, sys
V = os.path.dirname(os.path.dirname(os.path.abspath(__file__)))

KERNEL = "Lean 4.33.0 kernel (thorough tier: also leanchecker); axioms allowed per theorem: propext, Classical.choice, Quot.sound (checked by #print axioms on every run); no sorry/admit/axiom/native_decide/bv_decide/implemented_by/unsafe (scanned on every run)"
MODEL = "the hand-written Lean model's fidelity to the Rust is checked by sampling, not proved: the correspondence check compares model and implementation observables on the corpus and generated cases of each run"
HARN = "the Rust harness (generators, canonicalisation, catch_unwind), the Lean driver's parsing, and the ./check script"
NAT = "u64/usize modelled by Nat (checked_sub/saturating_sub = Nat subtraction)"
TECH = "Lean 4 theorems over an executable model + differential correspondence check against the real code"

P = {}

def prop(pid, **kw):
    kw.setdefault("technique", TECH)
    kw.setdefault("trusted_base", [KERNEL, MODEL, HARN] + kw.pop("extra_trusted", []))
    kw.setdefault("assumptions", kw["trusted_base"])
    P[pid] = kw

prop("C02",
  level_text="Proof (Lean 4): for every reachable Lapper (any history of new/insert/set_cov, any intervals) find = filter(overlap) as a list, every record exactly once with its own value (C02_find_eq_filter, C02_intervals_perm); lifted to per-chromosome maps built by from_iter followed by any inserts: find is a permutation of the loaded records overlapping on the same chromosome, is_overlapped iff non-empty, len/iter account for every record once. The model mirrors Vec::sort, the hand-written binary searches, the max_len pruning and the early break; the correspondence check ties it to /repo on every run.",
  level_note="Trusted: " + KERNEL + "; " + MODEL + "; " + HARN + "; HashMap modelled as an association list with unique keys (iteration order is not an observable); " + NAT + " — only comparison and saturating subtraction occur, so the statement holds up to u64::MAX.",
  explanation="Theorems in lean/BedVerif/Props/C02.lean; lemmas in Lemmas/{Sort,BSearch,LapperFind,LapperInv,GMap}.lean. Correspondence: GIntervalMap built by from_iter + inserts, observables len/iter/is_overlapped/find as sorted multisets, compared with the model and with the spec (filter over the loaded records).",
  classes=["hit-at-maxlen-edge", "longest-is-hit", "stop-eq-qstart", "start-eq-qstop", "stop-eq-qstart+1", "zero-length-near", "left-of-all", "right-of-all", "unknown-chrom", "u64max", "bulk-only", "insert-only", "bulk+inserts"],
  extra_trusted=["std HashMap and Vec::sort contracts (association list; stable sort)"])

prop("C16",
  level_text="Proof (Lean 4): for every history of new/insert/merge_overlaps/set_cov over intervals with start <= stop and every query qs < qe, count = |find| = number of stored intervals overlapping the query (C16_count_eq_find), and without a merge = number of supplied intervals overlapping it (C16_count_eq_records). Proof: the repaired bsearch_seq is the lower bound (#elements < key) on the sorted starts/stops, the skip loop reaches #stops <= qs, inclusion-exclusion with disjoint excluded classes. Correspondence check ties the model to /repo on every run.",
  level_note="Trusted: " + KERNEL + "; " + MODEL + "; " + HARN + "; " + NAT + ".",
  explanation="Theorems in lean/BedVerif/Props/C16.lean; lemmas in Lemmas/{LapperCount,LapperFind,LapperInv,BSearch,Sort}.lean. Correspondence: Lapper histories via the verif-hooks re-export; observable count and find().count() per query; spec evaluated in Lean on the implementation's numbers.",
  classes=["qstop-eq-smallest-start", "qstart-eq-largest-stop", "qstart-eq-some-stop", "qstop-eq-some-start", "empty-set", "zero-length", "after-insert", "after-merge"])

prop("C17",
  level_text="Proof (Lean 4): for every reachable Lapper and every query sequence with non-decreasing start through one cursor starting at 0, every seek = find = filter(overlap) (C17_seek_eq_find, C17_seek_eq_filter): the invariant 'every index below the cursor holds an interval starting before q.start - max_len' is re-established through both branches of seek (re-seed / advance). All index reads are guarded in the model exactly where the Rust guards them.",
  level_note="Trusted: " + KERNEL + "; " + MODEL + "; " + HARN + "; " + NAT + ". The absence of a panic / out-of-range access in the Rust itself is observed by the correspondence check (catch_unwind), not proved.",
  explanation="Theorems in lean/BedVerif/Props/C17.lean; lemmas in Lemmas/LapperSeek.lean.",
  classes=["repeated-query", "past-last-interval", "before-first-interval", "cursor-at-end", "huge-over-small", "empty-set", "equal-starts-growing-stops", "after-merge"])

prop("C11",
  level_text="Proof (Lean 4): for every region sequence xs, GIntervalIndexSet::from_iter(xs) has get(i) = xs[i] (none beyond the end), len = |xs|, iteration order = supply order; find_index_of(q) is a permutation of the positions i with xs[i] overlapping q on the same chromosome, once per occurrence (C11_findIndexOf_perm); find_full pairs each position with the region stored there; find returns those regions; is_overlapped iff some region overlaps; GIntervalIndexMap::find never indexes out of range and returns the i-th values (C11_map_find). Corollaries of the map-level theorem of C02 (C02_gfind_perm).",
  level_note="Trusted: " + KERNEL + "; " + MODEL + "; " + HARN + "; HashMap modelled as association list; " + NAT + ".",
  explanation="Theorems in lean/BedVerif/Props/C11.lean on top of Props/C02.lean and Lemmas/GMap*.lean. Correspondence: all positional accessors for every index 0..len+2 (index() under catch_unwind), all four query forms and both IndexMap queries, as sorted multisets; spec evaluated in Lean directly on the supplied sequence.",
  classes=["duplicates", "interleaved-chromosomes", "unsorted-coordinates", "empty-set", "query-hits-duplicates"],
  extra_trusted=["std HashMap and Vec::sort contracts"])

prop("C13",
  level_text="Proof (Lean 4), no bound on coordinates: overlap a b is Some exactly when the records share a chromosome and a position, the result is (chrom, max start, min end) and contains exactly the positions in both (C13_overlap_some_iff, C13_overlap_positions); overlap and n_overlap are symmetric; n_overlap is the number of shared positions, 0 when disjoint or adjacent (C13_nOverlap_card, C13_nOverlap_adjacent); len = end ∸ start = number of positions (C13_len, C13_len_card); compare is a total order (refl, eq iff equal fields, swap, trans) equal to the lexicographic order by byte-lexicographic chromosome name, start, end (C13_compare_lex, C13_cmpBytes_lt_iff). The derived Ord of GenomicRange and to_genomic_range are tied to compare by the correspondence check.",
  level_note="Trusted: " + KERNEL + "; " + MODEL + "; " + HARN + "; Rust str::cmp is byte-lexicographic (modelled by cmpBytes, proved equal to the lexicographic order on byte lists); " + NAT + ".",
  explanation="Theorems in lean/BedVerif/Props/C13.lean; lemmas in Lemmas/RecBasic.lean. Correspondence: all ordered pairs of 2-3 records of every record type (self) against three `other` types; observables len, to_genomic_range, overlap, n_overlap, compare, Ord for GenomicRange; the driver also checks the total-order laws on the observed compare table.",
  classes=["adjacent", "one-base-overlap", "nested", "identical", "zero-length", "end-before-start", "different-chromosome", "prefix-chromosome-names", "u64max"])

prop("C14",
  level_text="Proof (Lean 4) with the u64 arithmetic modelled exactly (saturating_add; bounds start <= end <= u64::MAX, 1 <= bin <= u64::MAX, nothing else): split_by_len returns ceil(len/bin) pieces on the record's chromosome, the first starting at start, consecutive, all but the last exactly bin long, the last non-empty and ending at end (C14_split_tiles); hence every position of the record lies in exactly one piece and no piece leaves the record (C14_partition); rsplit_by_len returns the mirror tiling anchored at the end (C14_rsplit_tiles); an empty record yields nothing (C14_split_empty). The Boolean checker the driver applies to the implementation's output is proved sound for the specification (C14_tilesB_sound).",
  level_note="Trusted: " + KERNEL + "; " + MODEL + "; " + HARN + "; std Range::step_by contract (modelled by List.range'); usize = u64 (64-bit target).",
  explanation="Theorems in lean/BedVerif/Props/C14.lean; lemmas in Lemmas/RecBasic.lean. Correspondence: split_by_len, rsplit_by_len, BinnedCoverage::regions, SparseBinnedCoverage::regions on a grid of (record, bin) incl. bins and coordinates at u64::MAX.",
  classes=["bin-1", "bin-divides", "bin-not-divides", "bin-eq-len", "bin-gt-len", "bin-u64max", "length-1", "zero-length", "start-0", "near-u64max"],
  extra_trusted=["std Range::step_by contract"])

prop("C07",
  level_text="Proof (Lean 4): for every input sorted by (chrom, start, end) the grouping loop of MergeBed never takes its panic branch and returns groups that flatten to the input (every record in exactly one group, in order), are non-empty, on one chromosome, chained (each further record starts at or before the running maximum end) and maximal (no record of a later group overlaps or abuts a record of an earlier one on the same chromosome) (C07_groups, C07_groups_separated); merge_sorted_bed emits (chrom, first start = min start, max end) per group (C07_merged_ranges) and its output is sorted, pairwise disjoint and non-adjacent within a chromosome and covers exactly the positions covered by the input (C07_merged). For arbitrary (unsorted) input, whenever the loop returns, no record is dropped (C07_groups_flatten_any).",
  level_note="Trusted: " + KERNEL + "; " + MODEL + "; " + HARN + "; " + NAT + "; the closure passed to merge_sorted_bed_with is modelled as receiving the group list.",
  explanation="Theorems in lean/BedVerif/Props/C07.lean; loop invariant in Lemmas/MergeBed.lean. Correspondence: the groups handed to the closure of merge_sorted_bed_with and the output of merge_sorted_bed on sorted sequences; spec evaluated in Lean on the implementation's groups and ranges.",
  classes=["chrom-change-overlapping-coords", "book-ended", "gap-of-one", "nested-smaller-end", "duplicates", "zero-length", "empty", "single"])

prop("C08",
  level_text="Proof (Lean 4): for every sorted sequence of non-empty bedGraph records with values in Z, merge_sorted_bedgraph returns records that are non-empty, sorted, pairwise non-overlapping, cover exactly the positions covered by the input, carry at every covered position the sum of the values of the covering input records, and are maximal (adjacent outputs on one chromosome differ in value) (C08_bedgraph, all seven clauses, no bound on sizes or coordinates). The sort of the breakpoints is unstable in the Rust: C08_order_independent proves the sweep result is the same for every position-sorted permutation. Proof: chunk sums are the per-position net change; prefix sums telescope to the covering sum; sweep invariant = maximal RLE of the step function so far; lift over the groups of C07.",
  level_note="Trusted: " + KERNEL + "; " + MODEL + "; " + HARN + "; itertools sorted_unstable_by_key = some key-sorted permutation (quantified over in C08_order_independent), chunk_by = maximal runs of equal key; values are mathematical integers (i64 in the harness, small enough not to overflow); " + NAT + ".",
  explanation="Theorems in lean/BedVerif/Props/C08.lean; lemmas in Lemmas/C08{Chunk,Sweep,Group,Single,Lift}.lean (about 1150 lines). Correspondence: output of merge_sorted_bedgraph::<i64> on sorted sequences; the spec (pointwise sum at every breakpoint, cover, maximality) is evaluated in Lean on the implementation's output.",
  classes=["mixed-sign-same-start", "cancel-to-zero", "zero-value", "many-at-one-position", "book-ended-equal", "book-ended-different", "several-chromosomes", "identical"],
  extra_trusted=["itertools sorted_unstable_by_key / chunk_by contracts"])

prop("C05",
  level_text="Proof (Lean 4): for every region list and every history of insert(tag,k) / insert_at_index(i,k) / reset (indices in range), after the history the dense counter holds for each region, in supply order, the sum over the operations since the last reset of k for every tag overlapping that region on the same chromosome (duplicated regions each get the full count) plus what insert_at_index added to exactly that index, and total_count is the sum of all multiplicities since the last reset (C05_dense); the sparse counter's vector equals the dense one and the totals agree (C05_sparse_eq_dense); the sparse map keeps sorted in-range keys; a tag that merely touches a boundary or lies on another chromosome adds nothing (C05_touching_adds_nothing). The counters run on the model of GIntervalIndexSet, so the lookup is the proved one of C11/C02.",
  level_note="Trusted: " + KERNEL + "; " + MODEL + "; " + HARN + "; counters are mathematical integers (harness uses i64 and u64 without overflow); total_count is an f64 in the Rust: exact while all partial sums are below 2^53 (generators respect this); BTreeMap modelled as a sorted association list.",
  explanation="Theorems in lean/BedVerif/Props/C05.lean; invariants in Lemmas/Coverage05.lean. Correspondence: after every operation get_coverage, get_coverage_as_vec, both total_count, both len, over i64 and u64 counters; the spec (sums over the history since the last reset) is evaluated in Lean on the implementation's numbers.",
  classes=["tag-touches-boundary", "tag-spans-3-regions", "tag-on-chrom-without-regions", "duplicated-regions", "empty-region-list", "reset-at-start", "reset-twice", "reset-between", "multiplicity-0", "multiplicity-negative", "multiplicity-large", "insert-at-index"],
  extra_trusted=["f64 accumulation of integers is exact below 2^53"])

prop("C06",
  level_text="Proof (Lean 4): for a non-empty region overlapped by a tag the inclusive bin range computed by the code involves no unsigned underflow, stays in range, and consists of exactly the bins the tag overlaps (C06_bin_iff); the bins are the pieces of split_by_len (C06_bins_are_split, shared geometry with C14); for every list of non-empty regions, bin >= 1 and every insert/reset history the dense counter never panics and each bin holds the summed multiplicity of the tags overlapping that bin on the same chromosome since the last reset (C06_dense); the sparse counter's vector equals the flattened dense matrix (C06_sparse_eq_dense); len is the total number of bins and accu[i] + b enumerates bins region by region in tiling order (C06_len, C06_flat_index); get_region / get_chrom return exactly that bin for every valid index and None for every index >= len, in particular on the empty region list (C06_getRegion, C06_getChrom).",
  level_note="Trusted: " + KERNEL + "; " + MODEL + "; " + HARN + "; std slice::binary_search contract on a strictly increasing vector (modelled); BTreeMap as sorted association list; counters are mathematical integers; NoOverflow: region.end + bin <= u64::MAX; f64 totals exact below 2^53.",
  explanation="Theorems in lean/BedVerif/Props/C06.lean; lemmas in Lemmas/C06{Arith,Accu,Dense,Sparse}.lean (about 1050 lines). Correspondence: after every op the dense matrix, the sparse vector and both totals; finally len, regions() of both counters, get_region(i), get_chrom(i) for i in 0..len+3 (under catch_unwind); the spec (per-bin sums over the history, tiling, lookups) is evaluated in Lean on the implementation's output.",
  classes=["bin-1", "bin-divides", "bin-not-divides", "bin-eq-len", "bin-gt-len", "tag-starts-before-region", "tag-ends-after-region", "tag-start-on-bin-edge", "tag-end-on-bin-edge", "one-base-tag-in-first-bin", "one-base-tag-in-last-bin", "tag-spans-all-bins", "empty-region-list", "duplicated-regions", "reset"],
  extra_trusted=["slice::binary_search contract"])

prop("C18",
  level_text="Proof (Lean 4): for every history over non-empty intervals, merge_overlaps yields a canonical list (non-empty, ascending, pairwise disjoint and non-adjacent) covering exactly the positions covered before, and applying it again changes nothing (C18_merge_canonical, C18_mergeList_canonical); a canonical list is determined by its covered set, so it is THE minimal disjoint non-adjacent cover (C18_canonical_unique), and it equals the specification-level canonical cover (maximal runs of the covered predicate) the driver computes (C18_merge_eq_canonicalCover); merges never change the covered set relative to the supplied intervals (C18_covered_supplied); the overlaps_merged flag implies canonical content (C18_merged_flag); afterwards find, count and seek answer for the current content and a later insert adds exactly its interval (C18_queries_after, C18_insert_after).",
  level_note="Trusted: " + KERNEL + "; " + MODEL + "; " + HARN + "; " + NAT + "; the driver evaluates the position-enumerating spec only when all coordinates are <= 60000 and otherwise compares with the proved model only.",
  explanation="Theorems in lean/BedVerif/Props/C18.lean; lemmas in Lemmas/C18{Merge,Hist,Runs}.lean and LapperInv.lean. Correspondence: histories with merges anywhere; iter, cov, find/count/seek before the final merge; iter and cov after one and two more merges; find/count after inserting a probe interval into the merged set; spec content computed in Lean from the history alone (canonical cover by run extraction).",
  classes=["book-ended", "one-spans-all", "duplicates", "nested", "empty-set", "single", "separated-clusters", "history-has-merge", "insert-after-merge"])

prop("C19",
  level_text="Proof (Lean 4): the moving-interval sweep of calculate_coverage counts the covered positions (C19_calcCov_spec); for every history of insert / merge_overlaps / set_cov over non-empty intervals cov() — cached or computed — equals the number of positions covered by the current content, which is the number covered by the supplied intervals (C19_cov_spec, C19_cov_supplied); union_and_intersect returns (|A ∪ B|, |A ∩ B|) of the covered position sets on both code paths (both sets merged: pairwise sums through one carried seek cursor; otherwise materialise, merge, count) (C19_union_intersect); it is symmetric and independent of whether either side has been merged (C19_symm, C19_merged_irrelevant).",
  level_note="Trusted: " + KERNEL + "; " + MODEL + "; " + HARN + "; " + NAT + " — in particular cov(a) + cov(b) is assumed not to overflow u64 (NoOverflow); spec evaluation in the driver only for coordinates <= 60000.",
  explanation="Theorems in lean/BedVerif/Props/C19.lean; lemmas in Lemmas/C19{Count,Sweep,Union}.lean on top of C17 (seek) and C18 (merge). Correspondence: pairs of histories with all four merged/unmerged combinations forced in rotation and set_cov before later inserts/merges; observables cov of both, union_and_intersect both ways, union, intersect.",
  classes=["merged-00", "merged-01", "merged-10", "merged-11", "cached-cov", "empty-side", "identical-sets", "disjoint", "set-cov-then-mutation"])

prop("C20",
  level_text="Proof (Lean 4): for every history over non-empty intervals depth() is the maximal run-length encoding of the pointwise depth: runs non-empty and ascending, inside a run the number of covering intervals is constant, positive and equal to the run's value, the runs tile exactly the covered positions, and two adjacent runs differ in depth (C20_depth_spec, structure IsDepthRLE); the empty set yields no runs (C20_depth_empty); the breakpoint-based Boolean checker the driver applies to the implementation's output is proved sound for that specification (C20_isDepthRLEB_sound). The proof follows the iterator: one carried seek cursor (C17), the merged helper cover (C18), the sentinel curr_merged_pos = 0, and a fuel measure showing the iterator terminates.",
  level_note="Trusted: " + KERNEL + "; " + MODEL + "; " + HARN + "; " + NAT + " (position + 1 does not overflow: intervals end below u64::MAX).",
  explanation="Theorems in lean/BedVerif/Props/C20.lean; lemmas in Lemmas/C20{Walk,Canon,Step,Inv,Drain,Top,Checker}.lean (about 820 lines). Correspondence: depth() collected on histories incl. the empty set, intervals starting at 0, nested stacks, book-ended chains, separated clusters at small and large offsets; the spec checker and the model are both compared with the implementation's runs.",
  classes=["book-ended", "one-spans-all", "duplicates", "nested", "empty-set", "single", "starts-at-0", "separated-clusters", "after-merge", "large-offset"])

if __name__ == "__main__":
    json.dump(P, open(os.path.join(V, "props_meta.json"), "w"), indent=1, ensure_ascii=False)
    subprocess.check_call([sys.executable, os.path.join(V, "tools", "gen_manifest.py")])
