#!/usr/bin/env python3
"""
tools/mutate.py [--slots N] [--files f1,f2] [--limit K] [--out FILE] [--only-survivors-of FILE]

Systematic self-test of the correspondence checks (section 9.3 of DESIGN.md): first-order mutants of
/repo's library source (outside #[cfg(test)] modules), each applied to a scratch worktree (never to /repo):

  1. harness build against the mutated tree      -> does not compile: `stillborn`
  2. the 54-test baseline on the mutated tree     -> a test fails:     `killed_by_tests` (not interesting:
                                                     the brief asks for changes that pass the tests)
  3. the harness runs of every property whose modelled sources include the mutated file, with the
     generators a drifted source gets (thorough), stopping at the first that reports a violation
                                                  -> `killed_by_check` (property, verdict line)
                                                  -> otherwise `survived` (to be triaged by hand:
                                                     equivalent mutant, outside every property, or a gap)

Scratch slots live under /tmp/mut (removed at the end); results are appended to --out as JSON lines.
"""
import json, os, re, shutil, subprocess, sys, threading, queue, time, hashlib

VERIF = "/verif"
REPO = "/repo"
ROOT = "/tmp/mut"
ENV = dict(os.environ, CARGO_NET_OFFLINE="true", VERIF_CASE_TIMEOUT_S="30", VERIF_DRIVER_TIMEOUT_S="600")

FILES = ["src/intervaltree.rs", "src/coverage.rs", "src/extsort/sort.rs", "src/extsort/merger.rs", "src/extsort/chunk.rs",
         "src/bed.rs", "src/bed/strand.rs", "src/bed/io.rs", "src/bed/score.rs", "src/bed/map.rs", "src/bed/bed_trait.rs"]

REPL = [
    (r" < ", " <= "), (r" <= ", " < "), (r" > ", " >= "), (r" >= ", " > "), (r" == ", " != "), (r" != ", " == "),
    (r" < ", " > "), (r" > ", " < "),
    (r" && ", " || "), (r" \|\| ", " && "),
    (r" \+ 1\b", ""), (r" - 1\b", ""), (r" \+ ", " - "), (r" - ", " + "), (r" \* ", " / "), (r" / ", " * "), (r" % ", " / "),
    (r" \+= ", " -= "), (r" -= ", " += "),
    (r"\.min\(", ".max("), (r"\.max\(", ".min("), (r"\bmin\(", "max("), (r"\bmax\(", "min("),
    (r"\bsaturating_add\b", "wrapping_add"), (r"\bsaturating_sub\b", "wrapping_sub"),
    (r"\btrue\b", "false"), (r"\bfalse\b", "true"),
    (r"(?<=[ (])!(?=[A-Za-z_(])", ""),
    (r"(?<![\w.])0(?![\w.])", "1"), (r"(?<![\w.])1(?![\w.])", "0"), (r"(?<![\w.])1(?![\w.])", "2"),
    (r"\bOrdering::Less\b", "Ordering::Greater"), (r"\bOrdering::Greater\b", "Ordering::Less"),
    (r"\bbreak\b", "continue"),
    (r"\.rev\(\)", ""), (r"\.is_some\(\)", ".is_none()"), (r"\.is_none\(\)", ".is_some()"), (r"\.is_empty\(\)", ".is_empty() == false"),
    (r"\bunwrap_or\(0\)", "unwrap_or(1)"),
    (r"\.first\(\)", ".last()"), (r"\.last\(\)", ".first()"),
    (r"\.start\b(?!\()", ".stop"), (r"\.stop\b(?!\()", ".start"),
    (r"\.start\(\)", ".end()"), (r"\.end\(\)", ".start()"),
]


def code_region(lines):
    """indices of lines outside #[cfg(test)] modules / verif hooks, not comments, not attributes"""
    out = []
    stop = len(lines)
    for i, l in enumerate(lines):
        if l.strip().startswith("#[cfg(test)]"):
            stop = i; break
    for i in range(stop):
        s = lines[i].strip()
        if not s or s.startswith("//") or s.startswith("#[") or s.startswith("use ") or s.startswith("#!["):
            continue
        if 'feature = "verif-hooks"' in s:
            break
        out.append(i)
    return out


def split_comment(l):
    # good enough: `//` outside a string literal
    inq = False; i = 0
    while i < len(l) - 1:
        c = l[i]
        if c == '"' and (i == 0 or l[i - 1] != '\\'): inq = not inq
        if not inq and l[i] == '/' and l[i + 1] == '/': return l[:i], l[i:]
        i += 1
    return l, ""


def mutants_of(path):
    lines = open(os.path.join(REPO, path)).read().split("\n")
    res = []
    for i in code_region(lines):
        code, com = split_comment(lines[i])
        for pat, rep in REPL:
            for m in re.finditer(pat, code):
                # skip generics-like contexts for < and >
                new = code[:m.start()] + rep + code[m.end():]
                if new == code: continue
                res.append({"file": path, "line": i + 1, "op": "%s->%s" % (pat, rep), "old": lines[i], "new": new + com})
        s = code.strip()
        if s.endswith(";") and not re.match(r"(let |pub |use |type |const |static |return\b|fn |impl |struct |enum |mod |\}|break|continue)", s) and "=>" not in s:
            res.append({"file": path, "line": i + 1, "op": "delete-statement", "old": lines[i], "new": ""})
    # dedupe
    seen = set(); out = []
    for r in res:
        k = (r["file"], r["line"], r["new"])
        if k in seen: continue
        seen.add(k); out.append(r)
    return out


def sh(cmd, cwd, timeout):
    try:
        p = subprocess.run(cmd, cwd=cwd, env=ENV, stdout=subprocess.PIPE, stderr=subprocess.STDOUT, text=True, timeout=timeout)
        return p.returncode, p.stdout
    except subprocess.TimeoutExpired as e:
        return 124, (e.stdout or b"").decode("utf8", "replace") if isinstance(e.stdout, bytes) else (e.stdout or "")


def setup_slot(k):
    slot = os.path.join(ROOT, "slot%d" % k)
    repo = os.path.join(slot, "repo"); verif = os.path.join(slot, "verif")
    if os.path.exists(slot):
        subprocess.run(["git", "-C", REPO, "worktree", "remove", "--force", repo], stdout=subprocess.DEVNULL, stderr=subprocess.DEVNULL)
        shutil.rmtree(slot, ignore_errors=True)
    os.makedirs(verif)
    subprocess.run(["git", "-C", REPO, "worktree", "add", "-q", "--detach", repo, "HEAD"], check=True)
    os.makedirs(os.path.join(verif, "harness"))
    for f in ("Cargo.toml", "Cargo.lock", "src", ".cargo"):
        s = os.path.join(VERIF, "harness", f)
        if os.path.isdir(s): shutil.copytree(s, os.path.join(verif, "harness", f))
        elif os.path.exists(s): shutil.copy(s, os.path.join(verif, "harness", f))
    ct = os.path.join(verif, "harness", "Cargo.toml")
    txt = open(ct).read().replace('path = "/repo"', 'path = "%s"' % repo)
    open(ct, "w").write(txt)
    for f in ("lean", "corpus", "known_findings.txt"):
        os.symlink(os.path.join(VERIF, f), os.path.join(verif, f))
    os.makedirs(os.path.join(verif, "replays"))
    # warm both builds
    sh(["cargo", "build", "--offline"], os.path.join(verif, "harness"), 1200)
    sh(["cargo", "nextest", "run", "--workspace", "--no-fail-fast", "--offline"], repo, 1200)
    return slot


def teardown_slot(k):
    slot = os.path.join(ROOT, "slot%d" % k)
    subprocess.run(["git", "-C", REPO, "worktree", "remove", "--force", os.path.join(slot, "repo")], stdout=subprocess.DEVNULL, stderr=subprocess.DEVNULL)
    shutil.rmtree(slot, ignore_errors=True)


DEPS = json.load(open(os.path.join(VERIF, "source_baseline.json")))["deps"]


def props_for(path):
    return sorted(p for p, fs in DEPS.items() if path in fs)


def run_mutant(slot, m, skip_tests=False):
    repo = os.path.join(slot, "repo"); verif = os.path.join(slot, "verif")
    fpath = os.path.join(repo, m["file"])
    orig = open(fpath).read()
    lines = orig.split("\n")
    assert lines[m["line"] - 1] == m["old"], "source moved"
    lines[m["line"] - 1] = m["new"]
    open(fpath, "w").write("\n".join(lines))
    r = dict(m)
    t0 = time.time()
    try:
        rc, out = sh(["cargo", "build", "--offline"], os.path.join(verif, "harness"), 900)
        if rc != 0:
            r["status"] = "stillborn"; return r
        if not skip_tests:
            rc, out = sh(["timeout", "300", "cargo", "nextest", "run", "--workspace", "--offline"], repo, 900)
            if rc != 0:
                r["status"] = "killed_by_tests"; return r
        ran = []
        for p in props_for(m["file"]):
            env = dict(ENV, VERIF_DIR=verif)
            try:
                hp = subprocess.run([os.path.join(verif, "harness/target/debug/bvharness"), "run", p, "--tier", "thorough", "--seed", "1",
                                     "--driver", os.path.join(VERIF, "lean/.lake/build/bin/bvdriver")],
                                    cwd=verif, env=env, stdout=subprocess.PIPE, stderr=subprocess.STDOUT, text=True, timeout=1500)
                rc, out = hp.returncode, hp.stdout
            except subprocess.TimeoutExpired:
                rc, out = 124, "TIMEOUT"
            ran.append(p)
            if rc != 0:
                v = [l for l in out.splitlines() if l.startswith("VIOLATION")]
                r["status"] = "killed_by_check"; r["by"] = p; r["verdict"] = (v[0] if v else "rc=%d %s" % (rc, out[-200:]))
                r["ran"] = ran
                return r
        r["status"] = "survived"; r["ran"] = ran
        return r
    finally:
        open(fpath, "w").write(orig)
        r["wall_s"] = round(time.time() - t0, 1)
        shutil.rmtree(os.path.join(verif, "replays"), ignore_errors=True); os.makedirs(os.path.join(verif, "replays"), exist_ok=True)


def main():
    a = sys.argv[1:]
    slots = 8; files = FILES; limit = None; outp = os.path.join(VERIF, "tools", "mutation_results.jsonl"); sample = None
    i = 0
    while i < len(a):
        if a[i] == "--slots": slots = int(a[i + 1]); i += 2
        elif a[i] == "--files": files = a[i + 1].split(","); i += 2
        elif a[i] == "--limit": limit = int(a[i + 1]); i += 2
        elif a[i] == "--out": outp = a[i + 1]; i += 2
        elif a[i] == "--list":
            for f in files:
                ms = mutants_of(f); print(f, len(ms))
            return
        else: print(__doc__); sys.exit(2)
    ms = []
    for f in files: ms += mutants_of(f)
    done = set()
    if os.path.exists(outp):
        for l in open(outp):
            d = json.loads(l); done.add((d["file"], d["line"], d["new"]))
    ms = [m for m in ms if (m["file"], m["line"], m["new"]) not in done]
    # deterministic shuffle so that a partial run samples all files
    ms.sort(key=lambda m: hashlib.sha256(("%s:%d:%s" % (m["file"], m["line"], m["new"])).encode()).hexdigest())
    if limit: ms = ms[:limit]
    print("%d mutants to run on %d slots" % (len(ms), slots), flush=True)
    q = queue.Queue()
    for m in ms: q.put(m)
    lock = threading.Lock()
    counts = {}

    def worker(k):
        slot = setup_slot(k)
        while True:
            try: m = q.get_nowait()
            except queue.Empty: break
            try:
                r = run_mutant(slot, m)
            except Exception as e:
                r = dict(m, status="error", error=str(e))
            with lock:
                counts[r["status"]] = counts.get(r["status"], 0) + 1
                with open(outp, "a") as f: f.write(json.dumps(r) + "\n")
                print("[%s] %s:%d %s  %s %s" % (time.strftime("%H:%M:%S"), r["file"], r["line"], r["op"], r["status"], r.get("by", "")), counts, flush=True)
        teardown_slot(k)

    ts = [threading.Thread(target=worker, args=(k,)) for k in range(slots)]
    for t in ts: t.start()
    for t in ts: t.join()
    print("done", counts)


if __name__ == "__main__":
    main()
