#!/bin/bash
# runs every quick check on the tree as it is (serially) and validates manifest + evidence
cd /verif; T=${1:-quick}; R=0
for i in $(seq -w 1 20); do s=$(date +%s); ./check C$i --tier $T > /tmp/all_C$i.log 2>&1; e=$?; [ $e -ne 0 ] && R=1; echo "C$i exit=$e $(( $(date +%s)-s ))s $(grep -m1 VIOLATION /tmp/all_C$i.log)"; done
python3-vt tools/validate.py; exit $R
