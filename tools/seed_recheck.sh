#!/bin/bash
# tools/seed_recheck.sh <NAME e.g. C14-c> <PROP> ["history text"]
# Re-runs ./check PROP against a filed seeded change (applied to /repo and undone straight afterwards) and
# records the result in seeded/NAME/meta.json; the result of the first run is kept as checks_first_run.
set -u
NAME=$1; P=$2; HIST=${3:-}
V=/verif; D=$V/seeded/$NAME
[ -z "$(git -C /repo status --short)" ] || { echo "/repo is not clean"; exit 2; }
git -C /repo apply $D/patch.diff || exit 3
(cd $V && ./check $P > /tmp/recheck_$NAME.log 2>&1); E=$?
git -C /repo checkout -- . && git -C /repo clean -fdq src
L=$(grep -m1 "^VIOLATION" /tmp/recheck_$NAME.log)
echo "check $P against $NAME: exit=$E $L"
sed -n 2,2p /tmp/recheck_$NAME.log | cut -c1-300
python3 - "$D/meta.json" "$P" "$E" "$L" "$HIST" <<'PY'
import json,sys
path,p,e,l,h=sys.argv[1:6]
m=json.load(open(path))
if 'checks_first_run' not in m: m['checks_first_run']=m.get('checks',[])
m['checks']=[{"property":p,"exit":int(e),"line":l}]
if h: m['history']=h
json.dump(m,open(path,'w'),indent=1); open(path,'a').write("\n")
PY
