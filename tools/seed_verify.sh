#!/bin/bash
# tools/seed_verify.sh <PROP> <OUTDIR with patch.diff demo.rs notes.md> <NAME> [other props to run too]
# Confirms a seeded change (compiles, 54 tests pass, demo fails with / passes without), then runs the
# checks of /verif against it (applied to /repo and undone straight afterwards) and files it under seeded/.
set -u
P=$1; OUT=$2; NAME=$3; shift 3; ALSO="$@"
V=/verif; W=/tmp/wt/verify-$P-$$
export CARGO_NET_OFFLINE=true
git -C /repo worktree add -q --detach $W HEAD || exit 2
cp $OUT/demo.rs $W/tests/seeded_demo.rs 2>/dev/null || { mkdir -p $W/tests; cp $OUT/demo.rs $W/tests/seeded_demo.rs; }
cd $W
cargo test --offline --features verif-hooks --test seeded_demo > $OUT/verify_demo_without.log 2>&1; D0=$?
git apply $OUT/patch.diff; AP=$?
mv $W/tests/seeded_demo.rs $W/seeded_demo.rs.aside   # the 54-test suite runs without the demonstration in tests/
cargo nextest run --workspace --no-fail-fast --offline > $OUT/verify_suite_with.log 2>&1; S1=$?
mv $W/seeded_demo.rs.aside $W/tests/seeded_demo.rs
PASSED=$(grep -o "[0-9]* passed" $OUT/verify_suite_with.log | tail -1)
cargo test --offline --features verif-hooks --test seeded_demo > $OUT/verify_demo_with.log 2>&1; D1=$?
cd /; git -C /repo worktree remove --force $W
echo "apply=$AP demo_without_exit=$D0 suite_with_exit=$S1 ($PASSED) demo_with_exit=$D1"
CONF=false
if [ $AP -eq 0 ] && [ $D0 -eq 0 ] && [ $S1 -eq 0 ] && [ $D1 -ne 0 ]; then CONF=true; fi
RES=""
if $CONF; then
  git -C /repo apply $OUT/patch.diff || exit 3
  for Q in $P $ALSO; do
    (cd $V && ./check $Q > $OUT/check_$Q.log 2>&1); E=$?
    L=$(grep -m1 "^VIOLATION" $OUT/check_$Q.log)
    echo "check $Q exit=$E $L"
    RES="$RES{\"property\":\"$Q\",\"exit\":$E,\"line\":\"$(echo $L | sed 's/"/\\"/g')\"},"
  done
  git -C /repo checkout -- . && git -C /repo clean -fdq src
  git -C /repo status --short
fi
DEST=$V/seeded/$NAME
mkdir -p $DEST
cp $OUT/patch.diff $OUT/demo.rs $DEST/
[ -f $OUT/notes.md ] && cp $OUT/notes.md $DEST/notes.md
cat > $DEST/meta.json <<EOM
{"breaks": "$P", "name": "$NAME", "confirmed": $CONF,
 "confirmation": {"patch_applies": $([ $AP -eq 0 ] && echo true || echo false), "demo_passes_without_change": $([ $D0 -eq 0 ] && echo true || echo false), "suite_with_change": "$PASSED", "demo_fails_with_change": $([ $D1 -ne 0 ] && echo true || echo false)},
 "ran": ["cargo test --offline --features verif-hooks --test seeded_demo (unchanged tree)", "git apply patch.diff", "cargo nextest run --workspace --no-fail-fast --offline", "cargo test --offline --features verif-hooks --test seeded_demo (changed tree)", "git -C /repo apply patch.diff; ./check <id>; git -C /repo checkout -- ."],
 "checks": [${RES%,}],
 "needs_to_manifest": "see notes.md"}
EOM
echo "filed under $DEST (confirmed=$CONF)"
