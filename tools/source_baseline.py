#!/usr/bin/env python3
"""Record the SHA-256 of every source file of /repo a property's model mirrors (source_baseline.json).
Run by hand after a commit to /repo; `check` only reads the file. A property whose files differ from
the baseline is checked with the thorough generators even in the quick tier (a deeper search, never a
verdict by itself)."""
import hashlib, json, os, subprocess
VERIF = os.path.dirname(os.path.dirname(os.path.abspath(__file__)))
REPO = "/repo"
EXT = ["src/extsort/sort.rs", "src/extsort/chunk.rs", "src/extsort/merger.rs", "src/extsort/mod.rs"]
REC = ["src/bed.rs", "src/bed/bed_trait.rs", "src/bed/score.rs", "src/bed/strand.rs"]
LAP = ["src/intervaltree.rs"]
MAP = ["src/bed/map.rs"] + LAP + ["src/bed/bed_trait.rs", "src/bed.rs"]
DEPS = {
    "C01": EXT, "C09": EXT, "C10": EXT, "C15": EXT,
    "C02": MAP, "C11": MAP,
    "C03": REC, "C13": REC, "C14": REC, "C07": REC, "C08": REC,
    "C04": ["src/bed/io.rs"] + REC, "C12": ["src/bed/io.rs"] + REC,
    "C05": ["src/coverage.rs"] + MAP, "C06": ["src/coverage.rs"] + MAP,
    "C16": LAP, "C17": LAP, "C18": LAP, "C19": LAP, "C20": LAP,
}
COMMON = ["src/lib.rs", "Cargo.toml"]

def digest(path):
    try:
        return hashlib.sha256(open(os.path.join(REPO, path), "rb").read()).hexdigest()
    except OSError:
        return None

if __name__ == "__main__":
    head = subprocess.run(["git", "-C", REPO, "rev-parse", "HEAD"], stdout=subprocess.PIPE, text=True).stdout.strip()
    dirty = subprocess.run(["git", "-C", REPO, "status", "--porcelain"], stdout=subprocess.PIPE, text=True).stdout.strip()
    if dirty:
        raise SystemExit("refusing: /repo has uncommitted changes")
    files = sorted({f for v in DEPS.values() for f in v} | set(COMMON))
    out = {"repo_head": head, "deps": {k: v + COMMON for k, v in DEPS.items()}, "sha256": {f: digest(f) for f in files}}
    json.dump(out, open(os.path.join(VERIF, "source_baseline.json"), "w"), indent=1)
    print("baseline of %d files at %s" % (len(files), head[:7]))
