#!/usr/bin/env python3
"""Validates MANIFEST.json and every evidence file against the schemas (python3-vt has jsonschema)."""
import json, glob, sys, jsonschema
ok = True
jsonschema.validate(json.load(open('/verif/MANIFEST.json')), json.load(open('/root/.vp/MANIFEST.schema.json')))
es = json.load(open('/root/.vp/EVIDENCE.schema.json'))
for f in sorted(glob.glob('/verif/evidence/*.json')):
    e = json.load(open(f))
    try: jsonschema.validate(e, es)
    except Exception as x: ok = False; print(f, str(x)[:300])
    if e.get('violations'): ok = False; print(f, 'violations', e['violations'])
    c = e['coverage']
    if c.get('classes_missed'): print(f, 'classes_missed', c['classes_missed'])
print('ok' if ok else 'PROBLEMS'); sys.exit(0 if ok else 1)
